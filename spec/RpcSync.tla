------------------------------ MODULE RpcSync ------------------------------
(* C09 - RPC mirror converges.                                                *)
(*                                                                            *)
(* The clock-sync PROTOCOL of pkg/rpc AS THE CODE IS (the arithmetic of one   *)
(* diff is C10's RpcDiff.tla; here a diff is "tracked ticks of snapshot TO    *)
(* minus tracked ticks of snapshot FROM", see `Abstraction`).  One action per *)
(* critical section:                                                          *)
(*                                                                            *)
(*   SrcMutate        a LOCAL mutation of the source machine ran; inside the  *)
(*                    transition sourceTracer.TransitionEnd snapshots the     *)
(*                    clock (dataLatest, per-mutation: append to dataQueue)   *)
(*                    rpc.go:782-857  [TracerSnapshot is part of the step: the*)
(*                    tracer runs synchronously inside the transition]        *)
(*   PushTry          pushClient: TryLock(lockExport) succeeded, the "no      *)
(*                    change" test passed, the diff against lastPushData is   *)
(*                    computed (PushCompute) - rpc_server.go:699-744          *)
(*   PushSend         Notify (or nothing, when the diff has no state index),  *)
(*                    storeLastPush, Unlock - rpc_server.go:745-754, 780-802  *)
(*   RemoteMutCompute Remote{Add,Remove,Set}: Lock(lockExport), mutate the    *)
(*                    source, DataLatest, newMsgMutation (diff against        *)
(*                    lastPushData, storeLastPush), Unlock                    *)
(*                    rpc_server.go:945-1073, 806-830                         *)
(*   ReplySend        rpc2 writes the response AFTER the handler returned,    *)
(*                    i.e. after the unlock: a push may overtake it           *)
(*   RemoteSync       rpc_server.go:1075-1090 (raw source time, no lock, does *)
(*                    not touch lastPushData)                                 *)
(*   Deliver          the client's rpc2 read loop (blocking mode) takes the    *)
(*                    head of the server->client wire:                        *)
(*                      push   RemoteUpdate / RemoteUpdateMutations run       *)
(*                             INLINE in the read loop: clockUpdate           *)
(*                             (ClientApply / ClientIgnoreMismatch /          *)
(*                             Sync-inside-the-handler)                       *)
(*                      reply  handed to the calling goroutine                *)
(*                      sync   handed to the calling goroutine                *)
(*                      hello / hsresp  handshake                             *)
(*   CliApplyReply    the CALLING goroutine applies the reply's diff          *)
(*                    (rpc_client.go:1353-1384); a push delivered later may   *)
(*                    be applied earlier; on a mismatch the same goroutine    *)
(*                    requests the full sync at once                          *)
(*   CliSyncSend / CliSyncInHandler / CliSyncFail / CliSyncApply              *)
(*                    Client.Sync: request (by a caller, or by the read loop  *)
(*                    itself inside RemoteUpdateMutations), refusal while not *)
(*                    Ready, clockSet of the answer by the calling goroutine  *)
(*   Drop             the connection is lost (the client notices at once)     *)
(*   SrvSeesDrop      rpc2's OnDisconnect callback of the lost connection     *)
(*                    removes ClientConnected (+HandshakeDone) - whenever it  *)
(*                    runs, possibly after the next connection was accepted   *)
(*   Connect          the client's retry loop dials; SrvSeesConnect is rpc2's *)
(*                    OnConnect callback (its own goroutine) adding           *)
(*                    ClientConnected; SrvHello (RemoteHello: lastPushData    *)
(*                    reset in place, Handshaking removes HandshakeDone),     *)
(*                    SrvHandshake (RemoteHandshake: rpcClient := this one,   *)
(*                    HandshakeDone REQUIRES ClientConnected), the client's   *)
(*                    CliHandshakeDone (clockSet of the hello's time);        *)
(*                    CliRetry is callFailsafe's retry once Ready is back     *)
(*                                                                            *)
(* Abstraction (explicit):                                                    *)
(*  - a clock is [t: state -> tick, q: queue tick]; machine tick is constant  *)
(*  - tick diffs are taken modulo W32 (stand-in for 2^32: uint32 message      *)
(*    field), queue-tick diffs modulo W16 = 2^16, the checksum modulo 256,    *)
(*    as the Go types do; W32 is 2^20 so that TLC's integers suffice - both   *)
(*    are multiples of 256, which is all the checksum sees                    *)
(*  - index spaces (schema / no schema) are not modelled (C10); `Schema`      *)
(*    only decides which states the MIRROR holds and whether Sync's length    *)
(*    test passes                                                             *)
(* Repairs are CONSTANT flags; [value describing the pinned code].            *)
EXTENDS RpcSyncOps

CONSTANTS
  Tracked,        \* synchronised states of the source
  Skipped,        \* states of the source that are not synchronised
  ExtraTracked,   \* number of further synchronised states that never change (the real
                  \* source has Exception and the states the harness uses to be rejected)
  Schema,         \* the client holds the full state list (FALSE: NoSchema, tracked only)
  Shallow,        \* ShallowClocks
  PerMutation,    \* SyncMutations
  PushEnabled,    \* PushInterval > 0
  MaxMut, MaxCli, MaxPush, MaxDrop, MaxSync,
  FixPushDriftSync,  \* [FALSE] RemoteUpdate requests a full sync on a checksum mismatch
                     \*         (code: the result of clockUpdate is ignored)
  FixEmptyPush,      \* [FALSE] a diff without state indexes (only the queue tick moved) is
                     \*         sent too (code: nothing is sent but storeLastPush runs)
  FixQueueFlush,     \* [FALSE] DataQueue() empties dataQueue
                     \*         (code: it sets dataLatest = nil and keeps the queue)
  FixSyncAsync,      \* [FALSE] a Sync needed by a pushed update does not run inside the
                     \*         blocking rpc2 handler
  FixSyncRebase,     \* [FALSE] RemoteSync answers like a hello: tracked states only, under
                     \*         lockExport, lastPushData := the answer
  FixShallowSum,     \* [FALSE] both sides checksum the number of active tracked states
  FixHsGate,         \* [FALSE] updates that arrive before the client's HandshakeDone are
                     \*         not silently dropped
  FixHsRequire,      \* [FALSE] RemoteHandshake does not answer "ok" while the server's
                     \*         HandshakeDone is rejected (ClientConnected missing)
  FixApplyInOrder    \* [FALSE] the read loop does not process the next message before the
                     \*         calling goroutine has applied the reply / sync answer it was
                     \*         handed (code: only lockQueue, which does not order them)

VARIABLES
  src, nmut, ncli,
  latest, dq, lastPush, lock, pp, rp,
  srvCC, srvHs, srvConn, discPending, ccPending,
  conn, epoch, s2c, c2s,
  mirror, cliHs, hs, call, rl, pend,
  drift, npush, ndrop, nsync,
  obs

vars == <<src, nmut, ncli, latest, dq, lastPush, lock, pp, rp, srvCC, srvHs, srvConn,
          discPending, ccPending, conn, epoch, s2c, c2s, mirror, cliHs, hs, call, rl, pend,
          drift, npush, ndrop, nsync, obs>>

All == Tracked \cup Skipped
CliStates == IF Schema THEN All ELSE Tracked

---------------------------------------------------------------------------
(* the pure operators (SnapOf, DiffOf, ChainOf, ApplyTo, AcceptsOf,           *)
(* ApplyChainOf, MatchesOf, CoversOf) live in RpcSyncOps.tla, shared with the  *)
(* trace specification; here they are bound to the configuration              *)

Snap(c) == SnapOf(Schema, Shallow, FixShallowSum, Tracked, c)
Diff(from, to) == DiffOf(Shallow, from, to)
Chain(prev, q) == ChainOf(prev, q)
Accepts(m, u) == AcceptsOf(Shallow, FixShallowSum, Tracked, ExtraTracked, m, u)
ApplyChain(m, us) == ApplyChainOf(Shallow, FixShallowSum, Tracked, ExtraTracked, m, us)
Matches(m, c) == MatchesOf(Shallow, Tracked, m, c)

(* ClientOpts.SyncMutations "disables SyncShallowClocks": not a configuration *)
ASSUME ~(PerMutation /\ Shallow)

(* the hello export (RemoteHello): tracked ticks, everything else zero        *)
HelloClock(c) == [t |-> [s \in CliStates |-> IF s \in Tracked THEN c.t[s] ELSE 0], q |-> c.q]

(* the answer of RemoteSync: the raw source time                              *)
SyncOk == Schema \/ Skipped = {} \/ FixSyncRebase   \* Client.Sync's length test passes
SyncClock(c) == IF FixSyncRebase THEN HelloClock(c)
                ELSE [t |-> [s \in CliStates |-> c.t[s]], q |-> c.q]

---------------------------------------------------------------------------
Clock0 == [t |-> [s \in All |-> 0], q |-> 1]

Init ==
  /\ src = Clock0 /\ nmut = 0 /\ ncli = 0
  /\ latest = Snap(Clock0) /\ dq = <<>> /\ lastPush = Snap(Clock0)
  /\ lock = "free" /\ pp = None /\ rp = None
  /\ srvCC = TRUE /\ srvHs = TRUE /\ srvConn = 1 /\ discPending = FALSE /\ ccPending = FALSE
  /\ conn = "up" /\ epoch = 1 /\ s2c = <<>> /\ c2s = <<>>
  /\ mirror = HelloClock(Clock0) /\ cliHs = TRUE /\ hs = None
  /\ call = None /\ rl = "idle" /\ pend = None
  /\ drift = FALSE /\ npush = 0 /\ ndrop = 0 /\ nsync = 0
  /\ obs = None

(* a mutation of the source: toggle state s, or (s = "reject") a mutation the *)
(* source cancels: only the queue tick moves                                  *)
Mutated(c, s) ==
  [t |-> [x \in All |-> IF x = s THEN c.t[x] + 1 ELSE c.t[x]], q |-> c.q + 1]

Targets == All \cup {"reject"}

Traced(c) ==
  /\ latest' = Snap(c)
  /\ dq' = IF PerMutation THEN Append(dq, Snap(c)) ELSE dq

SrcMutate(s) ==
  /\ nmut < MaxMut
  /\ src' = Mutated(src, s) /\ nmut' = nmut + 1
  /\ Traced(Mutated(src, s))
  /\ UNCHANGED <<ncli, lastPush, lock, pp, rp, srvCC, srvHs, srvConn, discPending, ccPending, conn,
                 epoch, s2c, c2s, mirror, cliHs, hs, call, rl, pend, drift, npush,
                 ndrop, nsync, obs>>

---------------------------------------------------------------------------
(* server: push                                                               *)

PushNeeded == latest # None /\ (latest.sum # lastPush.sum \/ latest.q # lastPush.q)

CanPushTry == PushEnabled /\ srvHs /\ lock = "free" /\ PushNeeded /\ npush < MaxPush

(* DataQueue(): what is left behind                                           *)
AfterDataQueue ==
  IF FixQueueFlush THEN latest' = latest /\ dq' = <<>>
  ELSE latest' = None /\ dq' = dq

PushTry ==
  /\ CanPushTry
  /\ lock' = "push" /\ npush' = npush + 1
  /\ IF PerMutation
     THEN /\ pp' = [k |-> "muts", data |-> latest, us |-> Chain(lastPush, dq), ep |-> srvConn]
          /\ AfterDataQueue
     ELSE /\ pp' = [k |-> "upd", data |-> latest, u |-> Diff(lastPush, latest), ep |-> srvConn]
          /\ UNCHANGED <<latest, dq>>
  /\ UNCHANGED <<src, nmut, ncli, lastPush, rp, srvCC, srvHs, srvConn, discPending, ccPending, conn, epoch,
                 s2c, c2s, mirror, cliHs, hs, call, rl, pend, drift, ndrop, nsync, obs>>

PushIsEmpty == IF pp.k = "muts" THEN pp.us = <<>> ELSE EmptyDiff(pp.u)

(* the client's side of a lost connection: the read loop ends (unless it is    *)
(* stuck inside a handler) and fails the pending call, which callFailsafe      *)
(* retries once Ready is back                                                 *)
ClientLoses ==
  IF rl = "idle"
  THEN /\ cliHs' = FALSE /\ hs' = None
       /\ call' = IF call = None THEN None
                  ELSE IF call.ph = "wait" THEN [call EXCEPT !.ph = "retry"]
                  ELSE IF call.ph = "syncwait"
                       THEN (IF call.k = "mut" THEN [call EXCEPT !.ph = "syncretry"] ELSE None)
                  ELSE call          \* got / needsync / syncgot: the caller already has its answer
  ELSE UNCHANGED <<cliHs, hs, call>>

(* pushUpdateLatest / pushUpdateMutations load s.rpcClient right after        *)
(* pushClient's checks: the Notify goes to the client of THAT connection      *)
PushSend ==
  /\ pp # None
  /\ lock' = "free" /\ pp' = None
  /\ IF PushIsEmpty /\ ~(FixEmptyPush /\ pp.k = "upd")
     THEN \* "nothing to push": no Notify, but storeLastPush runs
          /\ lastPush' = pp.data
          /\ UNCHANGED <<s2c, c2s, srvCC, srvHs, conn, discPending, ccPending, cliHs, hs, call>>
     ELSE IF conn = "up" /\ pp.ep = epoch
     THEN /\ s2c' = Append(s2c, [k |-> "push", m |-> pp])
          /\ lastPush' = pp.data
          /\ UNCHANGED <<c2s, srvCC, srvHs, conn, discPending, ccPending, cliHs, hs, call>>
     ELSE \* Notify fails: Remove1(ClientConnected) takes HandshakeDone with it,
          \* HandshakeDoneEnd closes the CURRENT rpcClient; lastPushData stays
          /\ srvCC' = FALSE /\ srvHs' = FALSE
          /\ UNCHANGED lastPush
          /\ IF srvHs /\ conn = "up" /\ srvConn = epoch
             THEN /\ conn' = "down" /\ s2c' = <<>> /\ c2s' = <<>>
                  /\ discPending' = FALSE /\ ccPending' = FALSE
                  /\ ClientLoses
             ELSE UNCHANGED <<s2c, c2s, conn, discPending, ccPending, cliHs, hs, call>>
  /\ UNCHANGED <<src, nmut, ncli, latest, dq, rp, srvConn, epoch,
                 mirror, rl, pend, drift, npush, ndrop, nsync, obs>>

---------------------------------------------------------------------------
(* server: a mutation requested by the client                                 *)

CanRemoteMut == c2s # <<>> /\ Head(c2s).k = "mut" /\ lock = "free" /\ rp = None

RemoteMutCompute ==
  /\ CanRemoteMut
  /\ LET req == Head(c2s)
         c == Mutated(src, req.s)
         data == Snap(c)
         q2 == IF PerMutation THEN Append(dq, data) ELSE dq
         res == IF req.s = "reject" THEN "canceled" ELSE "executed"
     IN /\ src' = c /\ nmut' = nmut + 1
        /\ c2s' = Tail(c2s)
        /\ lastPush' = data
        /\ IF PerMutation
           THEN /\ rp' = [k |-> "muts", data |-> data, us |-> Chain(lastPush, q2),
                          res |-> res, id |-> req.id, ep |-> epoch]
                /\ IF FixQueueFlush THEN latest' = data /\ dq' = <<>>
                   ELSE latest' = None /\ dq' = q2
           ELSE /\ rp' = [k |-> "upd", data |-> data, u |-> Diff(lastPush, data),
                          res |-> res, id |-> req.id, ep |-> epoch]
                /\ latest' = data /\ dq' = dq
  /\ UNCHANGED <<ncli, lock, pp, srvCC, srvHs, srvConn, discPending, ccPending, conn, epoch, s2c, mirror,
                 cliHs, hs, call, rl, pend, drift, npush, ndrop, nsync, obs>>

ReplySend ==
  /\ rp # None
  /\ rp' = None
  /\ s2c' = IF conn = "up" /\ rp.ep = epoch THEN Append(s2c, [k |-> "reply", m |-> rp]) ELSE s2c
  /\ UNCHANGED <<src, nmut, ncli, latest, dq, lastPush, lock, pp, srvCC, srvHs, srvConn,
                 discPending, ccPending, conn, epoch, c2s, mirror, cliHs, hs, call, rl, pend, drift,
                 npush, ndrop, nsync, obs>>

CanRemoteSync == c2s # <<>> /\ Head(c2s).k = "sync" /\ (FixSyncRebase => lock = "free")

RemoteSync ==
  /\ CanRemoteSync
  /\ c2s' = Tail(c2s)
  /\ s2c' = Append(s2c, [k |-> "sync", c |-> SyncClock(src), id |-> Head(c2s).id])
  /\ lastPush' = IF FixSyncRebase THEN Snap(src) ELSE lastPush
  /\ UNCHANGED <<src, nmut, ncli, latest, dq, lock, pp, rp, srvCC, srvHs, srvConn, discPending, ccPending,
                 conn, epoch, mirror, cliHs, hs, call, rl, pend, drift, npush, ndrop,
                 nsync, obs>>

---------------------------------------------------------------------------
(* client                                                                     *)

(* "the connection is up": as the CLIENT sees it (Ready)                       *)
Connected == conn = "up" /\ cliHs

(* (a Sync blocked on callLock inside the read loop gets the lock before a new  *)
(* call does)                                                                 *)
CanCliCall == conn = "up" /\ cliHs /\ call = None /\ rl = "idle" /\ ncli < MaxCli /\ nmut < MaxMut

(* NetworkMachine.Add / Remove / Set: callFailsafe takes callLock and sends   *)
CliCall(s) ==
  /\ CanCliCall
  /\ ncli' = ncli + 1
  /\ call' = [k |-> "mut", s |-> s, id |-> ncli + 1, ph |-> "wait", m |-> None, c |-> None]
  /\ c2s' = Append(c2s, [k |-> "mut", s |-> s, id |-> ncli + 1])
  /\ UNCHANGED <<src, nmut, latest, dq, lastPush, lock, pp, rp, srvCC, srvHs, srvConn,
                 discPending, ccPending, conn, epoch, s2c, mirror, cliHs, hs, rl, pend, drift, npush,
                 ndrop, nsync, obs>>

(* a pushed update reaches clockUpdate / clockUpdateMutations                 *)
PushOutcome(m) ==
  IF m.k = "muts" THEN ApplyChain(mirror, m.us)
  ELSE IF Accepts(mirror, m.u) THEN [m |-> ApplyTo(mirror, m.u), ok |-> TRUE]
  ELSE [m |-> mirror, ok |-> FALSE]

CanDeliver == /\ s2c # <<>> /\ rl = "idle"
              /\ ~(FixApplyInOrder /\ call # None /\ call.ph \in {"got", "syncgot"})

Deliver ==
  /\ CanDeliver
  /\ LET x == Head(s2c) IN
     /\ s2c' = Tail(s2c)
     /\ CASE x.k = "push" ->
               IF ~cliHs
               THEN \* clockUpdate returns true without applying anything
                    /\ pend' = IF FixHsGate THEN [k |-> "sync"] ELSE pend
                    /\ UNCHANGED <<mirror, drift, rl, call, hs, c2s, cliHs, obs>>
               ELSE LET o == PushOutcome(x.m) IN
                    /\ mirror' = o.m
                    /\ drift' = (drift \/ ~o.ok)
                    /\ IF o.ok THEN UNCHANGED <<rl, pend, call, c2s>>
                       ELSE IF x.m.k = "muts" \/ FixPushDriftSync
                       THEN \* RemoteUpdateMutations: c.Sync() INSIDE the blocking handler:
                            \* callFailsafe takes callLock (held by a call in flight,
                            \* whose reply only this read loop could deliver) and waits
                            \* for an answer only this read loop could deliver
                            IF FixSyncAsync
                            THEN pend' = [k |-> "sync"] /\ UNCHANGED <<rl, call, c2s>>
                            ELSE rl' = "insync" /\ UNCHANGED <<pend, call, c2s>>
                       ELSE UNCHANGED <<rl, pend, call, c2s>>   \* RemoteUpdate: ignored
                    /\ UNCHANGED <<hs, cliHs, obs>>
          [] x.k = "reply" ->
               /\ IF call # None /\ call.k = "mut" /\ call.ph = "wait" /\ call.id = x.m.id
                  THEN call' = [call EXCEPT !.ph = "got", !.m = x.m]
                  ELSE UNCHANGED call
               /\ UNCHANGED <<mirror, drift, rl, pend, hs, c2s, cliHs, obs>>
          [] x.k = "sync" ->
               /\ IF call # None /\ call.ph = "syncwait"
                  THEN call' = [call EXCEPT !.ph = "syncgot", !.c = x.c]
                  ELSE UNCHANGED call
               /\ UNCHANGED <<mirror, drift, rl, pend, hs, c2s, cliHs, obs>>
          [] x.k = "hello" ->
               \* updateStatesSchema, then the handshake request
               /\ mirror' = x.c
               /\ hs' = [k |-> "hello", c |-> x.c]
               /\ c2s' = Append(c2s, [k |-> "handshake"])
               /\ drift' = FALSE
               /\ UNCHANGED <<rl, pend, call, cliHs, obs>>
          [] x.k = "hsresp" ->
               /\ hs' = [hs EXCEPT !.k = "acked"]
               /\ UNCHANGED <<mirror, drift, rl, pend, call, c2s, cliHs, obs>>
  /\ UNCHANGED <<src, nmut, ncli, latest, dq, lastPush, lock, pp, rp, srvCC, srvHs, srvConn,
                 discPending, ccPending, conn, epoch, npush, ndrop, nsync>>

(* the calling goroutine applies the reply (clientNetMachConn.Call)           *)
CanCliApplyReply == call # None /\ call.k = "mut" /\ call.ph = "got"

CliApplyReply ==
  /\ CanCliApplyReply
  /\ LET m == call.m
         \* before the client's HandshakeDone (the connection was lost meanwhile)
         \* clockUpdate returns true without applying anything
         o == IF cliHs THEN PushOutcome(m) ELSE [m |-> mirror, ok |-> TRUE]
     IN /\ mirror' = o.m
        /\ IF o.ok
           THEN /\ call' = None
                /\ obs' = [id |-> call.id, res |-> m.res,
                           covers |-> ~cliHs \/ CoversOf(Shallow, Tracked, o.m, m.data),
                           synced |-> TRUE]
                /\ UNCHANGED <<drift, nsync, c2s>>
           ELSE \* c.rpc.Sync() at once, by the same goroutine (the client is Ready)
                /\ drift' = TRUE
                /\ IF nsync < MaxSync
                   THEN /\ call' = [call EXCEPT !.ph = "syncwait"]
                        /\ nsync' = nsync + 1
                        /\ c2s' = Append(c2s, [k |-> "sync", id |-> nsync + 1])
                   ELSE /\ call' = [call EXCEPT !.ph = "needsync"]
                        /\ UNCHANGED <<nsync, c2s>>
                /\ UNCHANGED obs
  /\ UNCHANGED <<src, nmut, ncli, latest, dq, lastPush, lock, pp, rp, srvCC, srvHs, srvConn,
                 discPending, ccPending, conn, epoch, s2c, cliHs, hs, rl, pend, npush, ndrop>>

(* Client.Sync: request (callFailsafe refuses at once when the client is not   *)
(* Ready: CliSyncFail)                                                        *)
CanCliSyncSend ==
  /\ conn = "up" /\ cliHs /\ nsync < MaxSync
  /\ \/ (call # None /\ call.ph \in {"needsync", "syncretry"})
     \/ (call = None /\ pend # None)          \* callLock is free

CliSyncSend ==
  /\ CanCliSyncSend
  /\ nsync' = nsync + 1
  /\ c2s' = Append(c2s, [k |-> "sync", id |-> nsync + 1])
  /\ IF call # None
     THEN call' = [call EXCEPT !.ph = "syncwait"] /\ UNCHANGED pend
     ELSE /\ call' = [k |-> "sync", s |-> "", id |-> 0, ph |-> "syncwait", m |-> None, c |-> None]
          /\ pend' = None
  /\ UNCHANGED <<src, nmut, ncli, latest, dq, lastPush, lock, pp, rp, srvCC, srvHs, srvConn,
                 discPending, ccPending, conn, epoch, s2c, mirror, cliHs, hs, rl, drift, npush,
                 ndrop, obs>>

(* the Sync() parked on callLock inside the read loop gets the lock: it sends   *)
(* its request and waits for an answer only the read loop could deliver       *)
CanCliSyncInHandler == rl = "insync" /\ call = None /\ nsync < MaxSync

CliSyncInHandler ==
  /\ CanCliSyncInHandler
  /\ rl' = "dead" /\ call' = [k |-> "sync", s |-> "", id |-> 0, ph |-> "syncwait", m |-> None, c |-> None]
  /\ nsync' = nsync + 1
  /\ c2s' = IF conn = "up" THEN Append(c2s, [k |-> "sync", id |-> nsync + 1]) ELSE c2s
  /\ UNCHANGED <<src, nmut, ncli, latest, dq, lastPush, lock, pp, rp, srvCC, srvHs, srvConn,
                 discPending, ccPending, conn, epoch, s2c, mirror, cliHs, hs, pend, drift, npush,
                 ndrop, obs>>

(* Sync() while the client is not Ready: "no connection", nothing is set and  *)
(* the mutation call returns with the mirror as it is                         *)
CanCliSyncFail == call # None /\ call.ph = "needsync" /\ ~(conn = "up" /\ cliHs)

CliSyncFail ==
  /\ CanCliSyncFail
  /\ call' = None
  \* (read-your-write is not promised to a call that returns without a connection)
  /\ obs' = [id |-> call.id, res |-> call.m.res, covers |-> TRUE, synced |-> FALSE]
  /\ UNCHANGED <<src, nmut, ncli, latest, dq, lastPush, lock, pp, rp, srvCC, srvHs, srvConn,
                 discPending, ccPending, conn, epoch, s2c, c2s, mirror, cliHs, hs, rl, pend,
                 drift, npush, ndrop, nsync>>

CanCliSyncApply == call # None /\ call.ph = "syncgot"

CliSyncApply ==
  /\ CanCliSyncApply
  /\ IF SyncOk
     THEN mirror' = call.c /\ drift' = FALSE
     ELSE UNCHANGED <<mirror, drift>>         \* "wrong clock len": nothing is set
  /\ call' = None
  /\ obs' = IF call.k = "mut"
            THEN [id |-> call.id, res |-> call.m.res,
                  covers |-> IF SyncOk THEN CoversOf(Shallow, Tracked, call.c, call.m.data)
                             ELSE CoversOf(Shallow, Tracked, mirror, call.m.data),
                  synced |-> SyncOk]
            ELSE obs
  /\ UNCHANGED <<src, nmut, ncli, latest, dq, lastPush, lock, pp, rp, srvCC, srvHs, srvConn,
                 discPending, ccPending, conn, epoch, s2c, c2s, cliHs, hs, rl, pend, npush, ndrop, nsync>>

---------------------------------------------------------------------------
(* connection                                                                 *)

CanDrop == conn = "up" /\ ndrop < MaxDrop

(* bytes in flight are lost                                                   *)
Drop ==
  /\ CanDrop
  /\ conn' = "down" /\ ndrop' = ndrop + 1
  /\ s2c' = <<>> /\ c2s' = <<>>
  /\ discPending' = TRUE
  /\ ClientLoses
  /\ UNCHANGED <<src, nmut, ncli, latest, dq, lastPush, lock, pp, rp, srvCC, srvHs, srvConn,
                 ccPending, epoch, mirror, rl, pend, drift, npush, nsync, obs>>

(* rpc2's OnDisconnect of the LOST connection: ClientConnected (and with it     *)
(* HandshakeDone) is removed - whenever the server notices, possibly after the *)
(* client's next connection was accepted (a peer that vanished without a FIN). *)
(* If HandshakeDone was active, HandshakeDoneEnd closes the CURRENT rpcClient. *)
SrvSeesDrop ==
  /\ discPending
  /\ discPending' = FALSE
  /\ srvCC' = FALSE /\ srvHs' = FALSE
  /\ IF srvHs /\ conn = "up" /\ srvConn = epoch
     THEN /\ conn' = "down" /\ s2c' = <<>> /\ c2s' = <<>>
          /\ ccPending' = FALSE
          /\ ClientLoses
     ELSE UNCHANGED <<conn, s2c, c2s, ccPending, cliHs, hs, call>>
  /\ UNCHANGED <<src, nmut, ncli, latest, dq, lastPush, lock, pp, rp, srvConn,
                 epoch, mirror, rl, pend, drift, npush, ndrop, nsync, obs>>

CanConnect == conn = "down" /\ rl = "idle"

Connect ==
  /\ CanConnect
  /\ conn' = "up" /\ epoch' = epoch + 1
  /\ c2s' = <<[k |-> "hello"]>> /\ s2c' = <<>>
  /\ ccPending' = TRUE                   \* rpc2's OnConnect callback: its own goroutine
  /\ UNCHANGED <<src, nmut, ncli, latest, dq, lastPush, lock, pp, rp, srvCC, srvHs, srvConn,
                 discPending, mirror, cliHs, hs, call, rl, pend, drift, npush, ndrop,
                 nsync, obs>>

(* the OnConnect callback adds ClientConnected - possibly AFTER the hello and  *)
(* the handshake of that connection were served                               *)
SrvSeesConnect ==
  /\ ccPending
  /\ ccPending' = FALSE
  /\ srvCC' = TRUE
  /\ UNCHANGED <<src, nmut, ncli, latest, dq, lastPush, lock, pp, rp, srvHs, srvConn,
                 discPending, conn, epoch, s2c, c2s, mirror, cliHs, hs, call, rl, pend, drift,
                 npush, ndrop, nsync, obs>>

CanSrvHello == c2s # <<>> /\ Head(c2s).k = "hello"

(* RemoteHello: lastPushData is overwritten IN PLACE under lockCollection     *)
(* (not lockExport); the tracked list and the sync options are re-read        *)
SrvHello ==
  /\ CanSrvHello
  /\ c2s' = Tail(c2s)
  /\ lastPush' = Snap(src)
  /\ dq' = IF FixQueueFlush THEN <<>> ELSE dq     \* (code: the queue survives a re-hello)
  /\ s2c' = Append(s2c, [k |-> "hello", c |-> HelloClock(src)])
  /\ srvHs' = FALSE       \* Add1(Handshaking) removes HandshakeDone (its End handler
                          \* closes the rpc client of the PREVIOUS connection)
  /\ UNCHANGED <<src, nmut, ncli, latest, lock, pp, rp, srvCC, srvConn, discPending, ccPending,
                 conn, epoch, mirror, cliHs, hs, call, rl, pend, drift, npush, ndrop,
                 nsync, obs>>

CanSrvHandshake == c2s # <<>> /\ Head(c2s).k = "handshake"

(* RemoteHandshake: rpcClient := this client; HandshakeDone REQUIRES           *)
(* ClientConnected (which a failed Notify may just have removed); the client   *)
(* is answered "ok" either way                                                *)
SrvHandshake ==
  /\ CanSrvHandshake
  /\ c2s' = Tail(c2s)
  /\ srvConn' = epoch
  /\ srvHs' = (srvCC \/ FixHsRequire)
  /\ srvCC' = (srvCC \/ FixHsRequire)
  /\ s2c' = Append(s2c, [k |-> "hsresp"])
  /\ UNCHANGED <<src, nmut, ncli, latest, dq, lastPush, lock, pp, rp, discPending, ccPending, conn,
                 epoch, mirror, cliHs, hs, call, rl, pend, drift, npush, ndrop, nsync, obs>>

CanCliHandshakeDone == hs # None /\ hs.k = "acked" /\ ~cliHs

(* HandshakeDoneState: clockSet(hello's time)                                 *)
CliHandshakeDone ==
  /\ CanCliHandshakeDone
  /\ cliHs' = TRUE
  /\ mirror' = hs.c
  /\ hs' = None
  /\ UNCHANGED <<src, nmut, ncli, latest, dq, lastPush, lock, pp, rp, srvCC, srvHs, srvConn,
                 discPending, ccPending, conn, epoch, s2c, c2s, call, rl, pend, drift, npush, ndrop,
                 nsync, obs>>

(* callFailsafe's retry loop: Ready is back, call again                       *)
CanCliRetry == call # None /\ call.ph = "retry" /\ conn = "up" /\ cliHs

CliRetry ==
  /\ CanCliRetry
  /\ call' = [call EXCEPT !.ph = "wait"]
  /\ c2s' = Append(c2s, [k |-> "mut", s |-> call.s, id |-> call.id])
  /\ UNCHANGED <<src, nmut, ncli, latest, dq, lastPush, lock, pp, rp, srvCC, srvHs, srvConn,
                 discPending, ccPending, conn, epoch, s2c, mirror, cliHs, hs, rl, pend, drift, npush,
                 ndrop, nsync, obs>>

---------------------------------------------------------------------------
Env == (\E s \in Targets : SrcMutate(s)) \/ (\E s \in Targets : CliCall(s)) \/ Drop

Proto ==
  \/ PushTry \/ PushSend \/ RemoteMutCompute \/ ReplySend \/ RemoteSync
  \/ Deliver \/ CliApplyReply \/ CliSyncSend \/ CliSyncInHandler \/ CliSyncFail \/ CliSyncApply
  \/ SrvSeesDrop \/ Connect \/ SrvSeesConnect \/ SrvHello \/ SrvHandshake \/ CliHandshakeDone \/ CliRetry

Next == Env \/ Proto

ProtoEnabled ==
  \/ CanPushTry \/ pp # None \/ CanRemoteMut \/ rp # None \/ CanRemoteSync
  \/ CanDeliver \/ CanCliApplyReply \/ CanCliSyncSend \/ CanCliSyncInHandler \/ CanCliSyncFail
  \/ CanCliSyncApply
  \/ discPending \/ ccPending \/ CanConnect \/ CanSrvHello \/ CanSrvHandshake \/ CanCliHandshakeDone
  \/ CanCliRetry

Spec == Init /\ [][Next]_vars
FairSpec == Spec /\ WF_vars(Proto)

---------------------------------------------------------------------------
(* the property                                                               *)

(* nothing of the protocol is left to run                                     *)
(* (bounds: a push / sync that is needed but cut off by MaxPush / MaxSync     *)
(* does not count as quiescence)                                              *)
BoundHit ==
  \/ (PushEnabled /\ srvHs /\ lock = "free" /\ PushNeeded /\ npush >= MaxPush)
  \/ (nsync >= MaxSync /\ conn = "up" /\ cliHs /\
      ((call # None /\ call.ph \in {"needsync", "syncretry"}) \/ (call = None /\ pend # None)))
  \/ (nsync >= MaxSync /\ rl = "insync" /\ call = None)

Quiescent == ~ProtoEnabled /\ ~BoundHit

(* with pushes disabled only replies and syncs carry updates: convergence is  *)
(* promised once everything the source did has been exported                  *)
Exported == ~PushNeeded \/ latest = None

ConvergedAtQuiescence ==
  (Quiescent /\ Connected /\ (PushEnabled \/ Exported)) => Matches(mirror, src)

(* a detected drift must not END in a stale mirror (a drift that later diffs   *)
(* happen to heal is not held against the code: weaker reading)               *)
ResyncAfterDrift ==
  (Quiescent /\ Connected /\ drift /\ (PushEnabled \/ Exported)) => Matches(mirror, src)

NoForeverBlock == Quiescent => (call = None /\ rl = "idle")

(* the pusher is LIVE: PushTry stands for pushClient called by the tracer's    *)
(* goroutine right after a source change AND by the push ticker that makes up *)
(* for the debounce ("too often": a change that follows a push or a reply by  *)
(* less than PushInterval is left to the ticker).  The model gives PushTry no *)
(* clock: it is enabled whenever a push is needed, and quiescence means it is *)
(* not.  That is an ASSUMPTION about the code (the ticker lives as long as    *)
(* the listener, across every reconnect); it is an invariant here by          *)
(* construction and is JUDGED on the real pair, with the real debounce and    *)
(* the real ticker, by TraceRpcSync.tla: at an observed quiescence with both  *)
(* sides handshaken no snapshot is newer than lastPushData.                   *)
PushDeliveredAtQuiescence ==
  (Quiescent /\ PushEnabled /\ srvHs /\ lock = "free") => ~PushNeeded

ReplyTruthful == TRUE   \* the reply carries the source's result by construction; judged on traces

ReadYourWrite == obs # None => obs.covers

TypeOK ==
  /\ lock \in {"free", "push"} /\ conn \in {"up", "down"}
  /\ rl \in {"idle", "insync", "dead"}

(* liveness, on the unconstrained specification under fairness of the         *)
(* protocol steps: whatever the environment did, once it stops the mirror     *)
(* converges, no call stays open, no drift stays unresolved                   *)
EventuallyConverged == <>[](Connected /\ call = None /\ rl = "idle" /\ ~drift /\
                            ((PushEnabled \/ Exported) => Matches(mirror, src)))
=============================================================================
