#!/usr/bin/env python3
"""Self-test of the machinery (not a property check):

1. non-vacuity / sensitivity of the specifications: with ONE repair flag
   switched off TLC must find a violation of the corresponding formula in the
   bounded model (the pinned, defective behaviour is still in the spec behind
   that flag);
2. binding: a recorded trace with one corrupted field / one dropped event must
   be reported (drift and/or violation).

usage: python3 tools/selftest.py        (prints a table, exit 0 iff all as expected)
"""
import glob, json, os, shutil, sys

sys.path.insert(0, os.path.dirname(os.path.abspath(__file__)))
import tlcrun
import seqcheck
from common import *


def mc_flag_off(flag, names, invs, extra=None, shard=(1, 0)):
    consts = dict(seqcheck.FLAGS, QueueLimit=5, MaxRel=2 if names == "<-NamesABC" else 1,
                  ShardMod=shard[0], ShardIdx=shard[1], FaultMode=False, Names=names, MaxCalls=1,
                  MaxVeto=1, UseAfter=False, UseFlags=False)
    consts.update(extra or {})
    consts[flag] = False
    r = tlcrun.run_tlc("MCMachine", dict(spec="MCSpec", consts=consts, view="MCView", invariants=invs),
                       workers=16, timeout=900)
    return sorted(r["violated"]), r["states"]


def _res(module, consts, fn):
    r = tlcrun.validate_traces(module, consts, [fn])[0]
    if r["result"] is None:
        print("trace validation gave no result for %s:\n%s" % (fn, r["out"][-1200:]))
        return dict(drift=[], viol=[])
    return r["result"]


def main():
    rows = []
    ok = True

    def expect(name, got, want):
        nonlocal ok
        good = bool(set(got) & set(want))
        ok &= good
        rows.append((name, "expected one of %s" % want, "got %s" % got, "OK" if good else "MISSED"))

    v, n = mc_flag_off("Transitive", "<-NamesABC", seqcheck.INVARIANTS["C02"], shard=(64, 3))
    expect("Transitive=FALSE (Add depth / re-added blocked states)", v,
           ["Inv_C02_AddSatisfied", "Inv_C02_NoRemoveConflict"])
    v, n = mc_flag_off("TopoSort", "<-NamesABC", ["Inv_C05"],
                       extra=dict(UseAfter=True, MaxRel=1), shard=(8, 1))
    expect("TopoSort=FALSE (After order)", v, ["Inv_C05"])
    v, n = mc_flag_off("ExitFix", "<-NamesAB", ["Inv_NoCrash"], extra=dict(UseFlags=True, MaxCalls=2))
    expect("ExitFix=FALSE (Exit veto panics)", v, ["Inv_NoCrash"])
    v, n = mc_flag_off("OrderedAuto", "<-NamesABC", ["Inv_C11"], extra=dict(UseFlags=True, MaxCalls=1, MaxRel=0))
    expect("OrderedAuto=FALSE (auto order from a map)", v, ["Inv_C11"])
    v, n = mc_flag_off("OrderedTopo", "<-NamesABC", ["Inv_C11"], extra=dict(MaxRel=1), shard=(4, 0))
    expect("OrderedTopo=FALSE (topology from a map)", v, ["Inv_C11"])
    v, n = mc_flag_off("LoopFix", "<-NamesAB", ["Inv_NoHang"],
                       extra=dict(UseFlags=True, MaxCalls=2, MaxVeto=0, FaultMode=True))
    expect("LoopFix=FALSE (panic in Exception handler wedges)", v, ["Inv_NoHang"])
    v, n = mc_flag_off("EndFix", "<-NamesAB", ["Inv_C08"],
                       extra=dict(UseFlags=True, MaxCalls=2, MaxVeto=0, FaultMode=True))
    expect("EndFix=FALSE (End-handler fault not rolled back)", v, ["Inv_C08"])

    r = tlcrun.run_tlc("MCQueue", dict(spec="Spec", consts=dict(Callers="{1, 2}", MutsPer=1, NestCodes="{}", PrepCodes="{}",
                       Recheck=False), invariants=["NoStranding", "NoneLost"]), workers=4, timeout=300)
    expect("Queue Recheck=FALSE (stranded mutation)", sorted(r["violated"]), ["NoStranding", "NoneLost"])
    for flag, inv in (("ClockAliased", "ClosedIff"), ("QueryFixed", "NeverPanics"), ("DisposeQuery", "ClosedIff"),
                      ("ArgsReuseExact", "ClosedIff")):
        consts = dict(States="<-StatesAB", MultiStates="<-MultiB", ClockAliased=True, QueryFixed=True,
                      DisposeQuery=True, ArgsReuseExact=True, UseArgs=(flag == "ArgsReuseExact"), MaxTx=2,
                      MaxBinds=2 if flag == "ArgsReuseExact" else 1, MaxCtx=1)
        consts[flag] = False
        r = tlcrun.run_tlc("MCSubs", dict(spec="MCSpec", consts=consts,
                           invariants=["ClosedIff", "StateCtxIff", "NeverPanics"]), workers=16, timeout=900)
        expect("Subs %s=FALSE" % flag, sorted(r["violated"]), [inv])

    # ---- binding: corrupt a recorded trace
    binary = build_harness()
    d = scratch("selftest")
    try:
        pref = os.path.join(d, "t")
        run([binary, "seq", "-mode", "s2", "-n", "40", "-calls", "3", "-seed", "5", "-out", pref, "-shards", "1"])
        fn = pref + ".0.ndjson"
        lines = open(fn).read().splitlines()
        # (a) flip the logged active states of the first state-changing transition
        for i, l in enumerate(lines):
            if l.startswith('{"ev":"tx"'):
                x = json.loads(l)
                if x["ta"] != x["tb"] and x["after"]:
                    x["after"] = x["after"][1:]
                    lines[i] = json.dumps(x)
                    break
        fa = os.path.join(d, "a.ndjson")
        open(fa, "w").write("\n".join(lines) + "\n")
        res = _res("TraceMachine", dict(seqcheck.FLAGS, QueueLimit=4), fa)
        got = sorted({f for _, f in res["drift"]} | {f for _, f in res["viol"]})
        expect("corrupted field `after` in a recorded transition", got, ["after", "c01"])
        # (b) drop one transition event
        lines = open(fn).read().splitlines()
        k = [i for i, l in enumerate(lines) if l.startswith('{"ev":"tx"')][3]
        fb = os.path.join(d, "b.ndjson")
        open(fb, "w").write("\n".join(lines[:k] + lines[k + 1:]) + "\n")
        res = _res("TraceMachine", dict(seqcheck.FLAGS, QueueLimit=4), fb)
        got = sorted({f for _, f in res["drift"]} | {f for _, f in res["viol"]})
        expect("dropped transition event", got, ["queue.nonempty", "result", "ret.active", "ret.time", "pre.active", "queue.head"])
        # (c) queue trace with one gate event removed
        pref = os.path.join(d, "q")
        run([binary, "queue", "-callers", "2", "-muts", "1", "-random", "5", "-seed", "2", "-out", pref, "-shards", "1"])
        lines = open(pref + ".0.ndjson").read().splitlines()
        k = [i for i, l in enumerate(lines) if '"point":"pq.casWon"' in l][0]
        fc = os.path.join(d, "c.ndjson")
        open(fc, "w").write("\n".join(lines[:k] + lines[k + 1:]) + "\n")
        res = _res("TraceQueue", dict(Callers="{1, 2}", MutsPer=1, NestCodes="{}", PrepCodes="{}", Recheck=True), fc)
        got = sorted({f for _, f in res["drift"]} | {f for _, f in res["viol"]})
        expect("dropped pq.casWon hook event", [g.split(":")[0] for g in got], ["gate"])
    finally:
        shutil.rmtree(d, ignore_errors=True)
    w = max(len(r[0]) for r in rows)
    for r in rows:
        print("%-*s  %-6s  %s" % (w, r[0], r[3], r[2]))
    return 0 if ok else 1


if __name__ == "__main__":
    sys.exit(main())
