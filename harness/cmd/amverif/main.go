package main

import (
	"fmt"
	"os"
)

func main() {
	if len(os.Args) < 2 {
		fmt.Fprintln(os.Stderr, "usage: amverif <seq|...> [flags]")
		os.Exit(2)
	}
	cmd, args := os.Args[1], os.Args[2:]
	switch cmd {
	case "seq":
		os.Exit(cmdSeq(args))
	case "det":
		os.Exit(cmdDet(args))
	case "replay":
		os.Exit(cmdReplay(args))
	default:
		fmt.Fprintln(os.Stderr, "unknown command", cmd)
		os.Exit(2)
	}
}
