#!/usr/bin/env python3
"""C19 -- shipped schemas are well-formed; exclusive groups hold in every
reachable state.

discovery   harness/schemas.Discover scans /repo with go/parser for exported
            package-level schema variables (am.Schema literal, SchemaMerge /
            .Merge call) and their ...States / ...Groups companions; a
            generated throw-away Go program (scratch module with a replace to
            /repo) imports them and dumps what the CURRENT tree evaluates to.
static      spec/TraceSchemas.tla evaluates, per dumped schema, the formulas
            of spec/Schemas.tla: ParsesClean, RefsDefined, NoRequireCycle,
            NoRequireRemoveConflict, NamesAgree.
design half TLC explores spec/MCSchemas.tla: Init = empty machine, Next =
            Add1(s) | Remove1(s) run to quiescence with Transition!RunTx,
            VIEW = active set, invariants RequireClosed / GroupExclusive.
binding     (1) TLC prints every explored edge, harness `schemas-replay`
            executes each one on a REAL am.Machine (source set injected with
            Machine.Import) and compares the successor set; the state sets of
            both sides must be equal to the real machine's own breadth-first
            search; a seeded sample of tree paths is executed on fresh
            machines without Import;
            (2) the active sets the real machine reached in its own search and
            the path executions go back to TLC (TraceSchemas): the formulas
            are evaluated on the code's output, the specification's step is
            compared with every logged path step.
The verdict comes from (static) and (2): formulas FALSE on what the real
code produced.  A disagreement of the two transition functions is SPEC-DRIFT.
"""
import concurrent.futures as cf
import json, os, shutil, subprocess, sys, time

sys.path.insert(0, os.path.dirname(os.path.abspath(__file__)))
import tlcrun
from common import *

PROP = "C19"

# the specification models the repaired tree (see findings/known_findings.jsonl)
FLAGS = dict(Transitive=True, TopoSort=True, ExitFix=True, OrderedAuto=True,
             OrderedTopo=True)

BOUNDS = {
    # go_states / go_edges: bounds of the real machine's own full search (the
    #             formulas are evaluated by TLC on every set it reaches)
    # full_edges: a schema is explored by TLC in full while states*ops <= this
    # part_edges: same bound for the relation core / the states around one group
    # batch_edges: size-weighted edges (cost()) per TLC process
    # sim       : (behaviours, max depth, edge budget) of `tlc -simulate` on the
    #             full schema for every schema that is not explored in full (a
    #             step evaluates all 2n edges of its source set)
    "quick": dict(go_states=200_000, go_edges=250_000, full_edges=100_000,
                  part_edges=50_000, batch_edges=70_000, sim=(2, 10, 3_000), paths=30,
                  mc_timeout=900, parallel=8, workers=2, shards=8),
    "thorough": dict(go_states=2_000_000, go_edges=4_000_000, full_edges=2_000_000,
                     part_edges=600_000, batch_edges=700_000, sim=(8, 30, 20_000), paths=300,
                     mc_timeout=6000, parallel=8, workers=2, shards=16),
}

INVARIANTS = ["Inv_RequireClosed", "Inv_GroupExclusive"]


# ---------------------------------------------------------------------------
# discovery + dump

def discover_and_dump(binary, d, rep):
    gen = os.path.join(d, "gen")
    rc, out = run([binary, "schemas-gen", "-repo", REPO, "-out", gen])
    if rc != 0:
        raise Inconclusive("schemas-gen failed: " + out[-2000:])
    meta = json.loads(out.strip().splitlines()[-1])
    cands = meta["candidates"]
    exe = os.path.join(gen, "dump")
    rc, out = run([gobin(), "build", "-o", exe, "."], cwd=gen, timeout=900)
    recs, build_failed = [], []
    if rc == 0:
        rc2, out2 = run_stdout([exe], timeout=300)
        if rc2 != 0:
            raise Inconclusive("dump program failed: " + out2[-2000:])
        recs = [json.loads(l) for l in out2.splitlines() if l.startswith("{")]
    else:
        # isolate the package that does not build: one program per import path
        first_err = out[-1500:]
        for imp in sorted({c["import"] for c in cands if not c.get("skip")}):
            g2 = os.path.join(d, "gen1")
            shutil.rmtree(g2, ignore_errors=True)
            rc, o = run([binary, "schemas-gen", "-repo", REPO, "-out", g2, "-only", imp])
            rc, o = run([gobin(), "build", "-o", os.path.join(g2, "dump"), "."], cwd=g2, timeout=900)
            if rc != 0:
                build_failed.append(dict(package=imp, error=o[-600:]))
                continue
            rc2, out2 = run_stdout([os.path.join(g2, "dump")], timeout=300)
            if rc2 != 0:
                build_failed.append(dict(package=imp, error=out2[-600:]))
                continue
            recs += [json.loads(l) for l in out2.splitlines() if l.startswith("{")]
        if not recs:
            raise Inconclusive("the dump program does not build: " + first_err)
    skipped = [dict(schema=c["dir"] + "." + c["var"], file=c["file"], reason=c["skip"])
               for c in cands if c.get("skip")]
    for bf in build_failed:
        for c in cands:
            if c["import"] == bf["package"]:
                skipped.append(dict(schema=c["dir"] + "." + c["var"], file=c["file"],
                                    reason="package does not build/run: " + bf["error"][-200:]))
    return cands, recs, skipped


def genv():
    """the real-machine drivers allocate a lot of short-lived garbage"""
    e = goenv()
    e.setdefault("GOGC", "400")
    return e


def run_stdout(cmd, timeout=None):
    p = subprocess.run(cmd, env=genv(), stdout=subprocess.PIPE, stderr=subprocess.PIPE,
                       text=True, timeout=timeout)
    return p.returncode, (p.stdout if p.returncode == 0 else p.stdout + p.stderr)


# ---------------------------------------------------------------------------
# exploration records

def relation_core(sch):
    """states that take part in any relation (as owner or as target)."""
    core = set()
    for n, s in sch.items():
        for r in ("require", "add", "remove", "after"):
            for x in s[r]:
                if x in sch:
                    core.add(n)
                    core.add(x)
    return core


def group_clusters(sch, groups):
    """Planning only (the invariants use the groups computed in TLA+): the
    clusters of states tied together by mutual Remove or by a declared group
    whose members are pairwise related by Remove."""
    parent = {}

    def find(x):
        parent.setdefault(x, x)
        while parent[x] != x:
            parent[x] = parent[parent[x]]
            x = parent[x]
        return x

    def union(a, b):
        parent[find(a)] = find(b)

    for a, s in sch.items():
        for b in s["remove"]:
            if b in sch and b != a and a in sch[b]["remove"]:
                union(a, b)
    for g in groups:
        m = [x for x in g["members"] if x in sch]
        full = [a for a in m if all(b in sch[a]["remove"] for b in m if b != a)]
        if len(m) >= 2 and len(m) == len(g["members"]) and (
                all(b in sch[a]["remove"] or a in sch[b]["remove"] for a in m for b in m if a != b)
                or (len(full) >= 2 and 2 * len(full) >= len(m))):
            for x in m[1:]:
                union(m[0], x)
    out = {}
    for x in parent:
        out.setdefault(find(x), set()).add(x)
    return sorted((c for c in out.values() if len(c) >= 2), key=lambda c: sorted(c))


def cluster_callable(sch, cluster):
    """The states whose calls can touch the cluster: the members, every state
    that Removes a member or is Removed by one, every state that (transitively)
    Adds one of those, all closed under Require."""
    c = set(cluster)
    for n, s in sch.items():
        if set(s["remove"]) & cluster:
            c.add(n)
    for m in cluster:
        c |= {x for x in sch[m]["remove"] if x in sch}
    changed = True
    while changed:
        changed = False
        for n, s in sch.items():
            if n not in c and set(s["add"]) & c:
                c.add(n)
                changed = True
        for n in list(c):
            for x in sch[n]["require"] + sch[n]["add"]:
                if x in sch and x not in c:
                    c.add(x)
                    changed = True
    return c


def record(rec, mode, label, callable_, max_states, max_edges=0):
    idx = rec["index"]
    return dict(id=rec["id"], mode=mode, label=label, max=max_states, max_edges=max_edges,
                sch=rec["mach_schema"], idx=idx, sorted=rec["sorted"],
                callable=[n for n in idx if n in callable_], groups=rec["groups"])


def write_records(path, records):
    first = {}
    with open(path, "w") as f:
        for k, r in enumerate(records):
            # sref: the first record of the file with the same schema
            r = dict(r, sref=first.setdefault(r["id"], k + 1))
            f.write(json.dumps(r) + "\n")


def bfs(binary, path, states_prefix=None, timeout=3000):
    cmd = [binary, "schemas-bfs", "-in", path]
    if states_prefix:
        cmd += ["-states", states_prefix]
    rc, out = run_stdout(cmd, timeout=timeout)
    if rc != 0:
        raise Inconclusive("schemas-bfs failed: " + out[-2000:])
    res = [json.loads(l) for l in out.splitlines() if l.startswith("{")]
    for r in res:
        if "error" in r:
            raise Inconclusive("real-machine search failed for %s: %s" % (r["id"], r["error"]))
    return res


def plan(binary, d, recs, B):
    """Decide, from the real machine's own search, how TLC explores each schema."""
    # a schema whose machine does not come up clean (Parse error -> Exception is
    # active after New) has no "empty machine": the static formulas report it,
    # the reachability part skips it
    broken = [r for r in recs if r["mach_err"] or r["parse_err"]]
    recs = [r for r in recs if not (r["mach_err"] or r["parse_err"])]
    full = [record(r, "full", "all states", set(r["index"]), B["go_states"], B["go_edges"])
            for r in recs]
    fpath = os.path.join(d, "full.ndjson")
    write_records(fpath, full)
    sizes = bfs(binary, fpath, states_prefix=os.path.join(d, "states"))
    state_files = {r["id"]: os.path.join(d, "states.%d.ndjson" % (k + 1))
                   for k, r in enumerate(recs)}
    chosen, modes, parts = [], {}, []
    for r in broken:
        modes[r["id"]] = dict(mode="none", exhaustive=False, go_states=0, go_truncated=False,
                              reason="machine not clean after New: " + (r["mach_err"] or r["parse_err"]))
    for k, (r, f, sz) in enumerate(zip(recs, full, sizes)):
        if not sz["truncated"] and sz["states"] * sz["ops"] <= B["full_edges"]:
            f = dict(f, est_edges=sz["states"] * sz["ops"], est_states=sz["states"])
            chosen.append(f)
            modes[r["id"]] = dict(mode="full", exhaustive=True, go_states=sz["states"],
                                  go_truncated=False, never_active=sz["never_active"])
            continue
        modes[r["id"]] = dict(mode="parts", exhaustive=False, go_states=sz["states"],
                              go_truncated=sz["truncated"], never_active=sz["never_active"]
                              if not sz["truncated"] else None, parts=[])
        sch = r["mach_schema"]
        core = relation_core(sch)
        pe = B["part_edges"]
        cand = [record(r, "core", "relation core (%d of %d states)" % (len(core), len(sch)), core,
                       0, pe + 1)]
        for c in group_clusters(sch, r["groups"]):
            call = cluster_callable(sch, c)
            cand.append(record(r, "group", "group {%s}: %d callable states" % (
                ",".join(sorted(c)), len(call)), call, 0, pe + 1))
        parts.append((r["id"], cand))
    if parts:
        ppath = os.path.join(d, "parts.ndjson")
        flat = [c for _, cs in parts for c in cs]
        write_records(ppath, flat)
        psz = bfs(binary, ppath)
        i = 0
        for sid, cs in parts:
            szs = psz[i:i + len(cs)]
            i += len(cs)

            def fits(sz):
                return not sz["truncated"] and sz["states"] * sz["ops"] <= B["part_edges"]

            if fits(szs[0]):
                chosen.append(dict(cs[0], max_edges=0, est_edges=szs[0]["states"] * szs[0]["ops"],
                                   est_states=szs[0]["states"]))
                modes[sid]["mode"] = "core"
                modes[sid]["parts"].append(dict(label=cs[0]["label"], states=szs[0]["states"],
                                                explored=True))
                continue
            modes[sid]["mode"] = "groups"
            for c, sz in zip(cs[1:], szs[1:]):
                modes[sid]["parts"].append(dict(label=c["label"], explored=fits(sz),
                                                states=sz["states"] if fits(sz) else None))
                if fits(sz):
                    chosen.append(dict(c, max_edges=0, est_edges=sz["states"] * sz["ops"],
                                       est_states=sz["states"]))
    return chosen, modes, state_files


def cost(c):
    """TLC's cost of an edge grows with the size of the schema (index-long
    clocks, auto candidates): weight the edge estimate by it."""
    return c["est_edges"] * max(1.0, len(c["idx"]) / 20.0)


def batches(chosen, limit):
    out, cur, tot = [], [], 0
    for c in sorted(chosen, key=lambda x: -cost(x)):
        if cur and tot + cost(c) > limit:
            out.append(cur)
            cur, tot = [], 0
        cur.append(c)
        tot += cost(c)
    if cur:
        out.append(cur)
    return out


# ---------------------------------------------------------------------------
# TLC | replayer

def tlc_replay(binary, records, name, d, B, sd, emit=True, simulate=None, invariants=INVARIANTS,
               workers=4):
    """One TLC process over `records`, its edge lines piped into the Go replayer.
    Returns dict(stats=[per record], tlc=parsed TLC summary)."""
    inp = os.path.join(d, name + ".in.ndjson")
    write_records(inp, records)
    td = tlcrun._scratch("MCSchemas")
    try:
        os.symlink(inp, os.path.join(td, "in.ndjson"))
        # the real machine's search sized every record (est_states)
        limit = int(1.25 * sum(r.get("est_states", 0) for r in records)) + 2000
        tlcrun.write_cfg(os.path.join(td, "MCSchemas.cfg"), spec="MCSpec",
                         consts=dict(FLAGS, InputFile="in.ndjson", Emit=emit, MaxDistinct=limit),
                         view="MCView", invariants=invariants,
                         constraint=None if simulate else "Bound")
        cmd = ["timeout", str(B["mc_timeout"]), "tlc", "-workers", str(workers),
               "-metadir", os.path.join(td, "meta"), "-config", "MCSchemas.cfg"]
        if simulate:
            cmd += ["-simulate", "num=%d" % simulate[0], "-depth", str(simulate[1]),
                    "-seed", str(sd)]
        cmd.append("MCSchemas.tla")
        tlcout = os.path.join(d, name + ".tlc.out")
        t0 = time.time()
        p1 = subprocess.Popen(cmd, cwd=td, stdout=subprocess.PIPE, stderr=subprocess.STDOUT)
        p2 = subprocess.Popen([binary, "schemas-replay", "-in", inp, "-tlcout", tlcout,
                               "-paths", str(B["paths"]), "-seed", str(sd),
                               "-trace", os.path.join(d, name + ".trace")],
                              stdin=p1.stdout, stdout=subprocess.PIPE, stderr=subprocess.PIPE,
                              text=True, env=genv())
        p1.stdout.close()
        out2, err2 = p2.communicate()
        rc1 = p1.wait()
        wall = time.time() - t0
        tout = open(tlcout).read() if os.path.exists(tlcout) else ""
        if p2.returncode != 0:
            raise Inconclusive("schemas-replay failed (%s): %s" % (name, (out2 + err2)[-2000:]))
        res = dict(rc=rc1, wall=wall, timed_out=(rc1 == 124), states=0, distinct=0, violated={})
        m = None
        for m in tlcrun.RE_STATES.finditer(tout):
            pass
        if m:
            res.update(states=int(m.group(1)), distinct=int(m.group(2)), left=int(m.group(3)))
        for v in tlcrun.RE_VIOL.findall(tout):
            res["violated"][v] = res["violated"].get(v, 0) + 1
        res["errors"] = [l for l in tout.splitlines()
                         if l.startswith("Error:") and "is violated" not in l
                         and "behavior up to this point" not in l]
        res["completed"] = "Model checking completed" in tout or "Finished in" in tout
        res["tail"] = tout[-2500:]
        groups = None
        for l in tout.splitlines():
            if l.startswith('<<"GROUPS", '):
                s = l[len('<<"GROUPS", "'):-3]
                s = s.replace('\\\\', '\x00').replace('\\"', '"').replace('\x00', '\\')
                groups = json.loads(s)
        stats = [json.loads(l) for l in out2.splitlines() if l.startswith("{")]
        return dict(name=name, tlc=res, stats=stats, groups=groups, records=records)
    finally:
        shutil.rmtree(td, ignore_errors=True)


def run_tlc_jobs(binary, d, chosen, recs, modes, B, sd):
    """All TLC processes of the check in one pool: the exhaustive explorations
    (batches of records) and `tlc -simulate` on every schema that is not
    explored in full.  Returns (mc results, sim results)."""
    bs = batches(chosen, B["batch_edges"])
    todo = [r for r in recs if modes[r["id"]]["mode"] not in ("full", "none")]

    def nworkers(batch):
        # a single big record cannot be split over processes: more workers
        c = sum(cost(x) for x in batch)
        if c <= B["batch_edges"]:
            return B["workers"]
        return min(8, B["workers"] * int(-(-c // B["batch_edges"])))

    def mc_one(i):
        r = tlc_replay(binary, bs[i], "mc%d" % i, d, B, sd, workers=nworkers(bs[i]))
        if r["tlc"]["violated"] and not r["tlc"]["timed_out"]:
            # the specification itself leaves the invariant: TLC stopped; the
            # exploration is repeated without the invariants so that the
            # binding still covers every edge -- the verdict is taken from the
            # real machine's states (TraceSchemas), this is only a prediction
            r2 = tlc_replay(binary, bs[i], "mc%dn" % i, d, B, sd, invariants=(),
                            workers=nworkers(bs[i]))
            r2["predicted"] = r["tlc"]["violated"]
            r2["predicted_tail"] = r["tlc"]["tail"]
            return r2
        return r

    def sim_one(i):
        r = todo[i]
        num, depth, budget = B["sim"]
        depth = max(4, min(depth, budget // (num * 2 * len(r["index"]))))
        rc = record(r, "sim", "tlc -simulate num=%d depth=%d" % (num, depth), set(r["index"]), 0)
        return tlc_replay(binary, [rc], "sim%d" % i, d, B, sd + i, simulate=(num, depth),
                          workers=B["workers"])

    with cf.ThreadPoolExecutor(max_workers=B["parallel"]) as ex:
        fm = [ex.submit(mc_one, i) for i in range(len(bs))]
        fs = [ex.submit(sim_one, i) for i in range(len(todo))]
        return [f.result() for f in fm], [f.result() for f in fs]


# ---------------------------------------------------------------------------
# TraceSchemas: the formulas on what the real code produced

def schema_line(rec):
    d = dict(rec)
    d["sch"] = rec["mach_schema"]
    d["idx"] = rec["index"]
    return json.dumps(dict(ev="schema", d=d))


def build_traces(d, recs, state_files, mc_results, nshards=16):
    """Per schema: the schema line, the sets of the real machine's full search,
    the code-only sets and path executions of every TLC exploration."""
    chunks = []   # (nlines, schema id, [files])
    for k, r in enumerate(recs):
        files = []
        sf = state_files.get(r["id"])
        if sf and os.path.exists(sf):
            files.append(sf)
        for res in mc_results:
            for st in res["stats"]:
                if st["id"] == r["id"] and st["mode"] != "sim":
                    tf = os.path.join(d, "%s.trace.%d.ndjson" % (res["name"], st["k"]))
                    if os.path.exists(tf):
                        files.append(tf)
        n = 1 + sum(sum(1 for _ in open(f)) for f in files)
        chunks.append((n, r, files))
    chunks.sort(key=lambda c: -c[0])
    shards = [[] for _ in range(nshards)]
    load = [0] * nshards
    for c in chunks:
        i = load.index(min(load))
        shards[i].append(c)
        load[i] += c[0]
    paths, index = [], []
    for i, sh in enumerate(shards):
        if not sh:
            continue
        p = os.path.join(d, "trace.%d.ndjson" % i)
        lines = []   # line number -> schema id
        with open(p, "w") as out:
            for n, r, files in sh:
                out.write(schema_line(r) + "\n")
                lines.append(r["id"])
                for f in files:
                    for l in open(f):
                        out.write(l)
                        lines.append(r["id"])
        paths.append(p)
        index.append(lines)
    return paths, index


def validate(paths, timeout):
    return tlcrun.validate_traces("TraceSchemas", FLAGS, paths, timeout=timeout)


# ---------------------------------------------------------------------------

def path_to(binary, d, rec, positions, B):
    """operations (BFS tree of the real machine) that reach the set."""
    r = record(rec, "full", "path", set(rec["index"]), B["go_states"], B["go_edges"])
    p = os.path.join(d, "find.ndjson")
    write_records(p, [r])
    rc, out = run_stdout([binary, "schemas-path", "-in", p, "-find", json.dumps(positions)],
                         timeout=1200)
    if rc != 0:
        return None
    return json.loads(out.strip().splitlines()[-1]).get("ops")


def report_static(rep, rec, formula, static):
    detail = {k: static.get(k) for k in ("undefined", "dropped", "conflicts")}
    detail.update(parse_err=rec["parse_err"], verify_err=rec["verify_err"], mach_err=rec["mach_err"])
    sig = dict(formula=formula, schema=rec["id"])
    rep.violation(sig, dict(kind="static", property=PROP, formula=formula, schema=rec["id"]),
                  "static formula %s false for %s (%s): %s" % (
                      formula, rec["id"], rec["file"], json.dumps(detail)[:400]))


def builders_part(binary, d, rep, sd, nrandom):
    """The builders the shipped schemas are assembled with (State.Extend / Set / SetRels,
    StateAdd / StateSet, Schema.Merge / SchemaMerge): the real functions on an enumerated
    input space, validated by TLC against Schemas.tla Part 1b (spec/TraceSchemaBuild.tla)."""
    out = os.path.join(d, "builders.ndjson")
    rc, o = run([binary, "schemas-build", "-out", out, "-seed", str(sd), "-n", str(nrandom)], timeout=600)
    if rc != 0:
        raise Inconclusive("schemas-build failed: " + o[-1500:])
    r = tlcrun.validate_traces("TraceSchemaBuild", FLAGS, [out], timeout=1800)[0]
    if r["result"] is None:
        raise Inconclusive("TraceSchemaBuild failed: " + r["out"][-1500:])
    seen = set()
    for v in r["result"]["viol"]:
        l, _, fn, kind = v
        if (fn, kind) in seen:
            continue
        seen.add((fn, kind))
        line = tlcrun.line_of(out, l)
        sig = dict(formula="builders", fn=fn, kind=kind)
        rep.violation(sig, dict(kind="builders", property=PROP, formula="builders", fn=fn, event=line),
                      "schema builder %s does not build what the source expression says (%s): %s" % (
                          fn, kind, json.dumps(line)[:500]))
    for v in r["result"]["drift"][:5]:
        rep.drift.append("builders line %d: %s %s" % (v[0], v[1], v[2]))
    rep.coverage["builder_calls_validated"] = r["result"]["lines"]


def check(tier):
    rep = Report(PROP, tier, "model_checking")
    B = BOUNDS[tier]
    sd = seed()
    binary = build_harness()
    d = scratch(PROP)
    try:
        phases = {}
        t0 = time.time()
        cands, recs, skipped = discover_and_dump(binary, d, rep)
        if not recs:
            raise Inconclusive("no schema discovered")
        byid = {r["id"]: r for r in recs}
        phases["discover_dump"] = round(time.time() - t0, 1)
        t0 = time.time()
        builders_part(binary, d, rep, sd, 400 if tier == "quick" else 20000)
        phases["builders"] = round(time.time() - t0, 1)
        t0 = time.time()
        chosen, modes, state_files = plan(binary, d, recs, B)
        phases["real_machine_search"] = round(time.time() - t0, 1)
        t0 = time.time()
        mc, sim = run_tlc_jobs(binary, d, chosen, recs, modes, B, sd)
        phases["tlc_explore_simulate_replay"] = round(time.time() - t0, 1)
        t0 = time.time()

        # ---- binding 1: every edge TLC explored, executed on the real machine
        tlc_states = tlc_edges = replayed = nontrivial = 0
        samples, tlc_runs = [], []
        per_schema = {r["id"]: dict(modes[r["id"]], file=r["file"], states=len(r["index"]),
                                    names_list=r["states_var"], groups_var=r["groups_var"],
                                    completed_with=r["completed"], explorations=[])
                      for r in recs}
        for res in mc + sim:
            t = res["tlc"]
            if t["timed_out"]:
                raise Inconclusive("TLC timed out in %s:\n%s" % (res["name"], t["tail"][-800:]))
            if t["errors"] or not t["completed"]:
                if not t["violated"]:
                    raise Inconclusive("TLC error in %s (rc=%s): %s\n%s" % (res["name"], t["rc"], t["errors"][:3],
                                                                     t["tail"][-1500:]))
            if res.get("predicted"):
                rep.notes.append("specification leaves %s in %s (prediction only): %s" % (
                    list(res["predicted"]), res["name"], res["predicted_tail"][-600:]))
            tlc_states += t["distinct"]
            tlc_edges += t["states"]
            tlc_runs.append(dict(run=res["name"], wall_s=round(t["wall"], 1), generated=t["states"],
                                 distinct=t["distinct"], records=len(res["records"]),
                                 schemas=sorted({r["id"] for r in res["records"]})[:4]))
            for st in res["stats"]:
                replayed += st["edge_lines"]
                nontrivial += st["nontrivial_edges"]
                samples += st["samples"]
                e = dict(mode=st["mode"], label=st["label"], tlc_states=st["spec_states"],
                         edges_replayed=st["edge_lines"], mismatches=st["mismatches"])
                if st["mode"] != "sim":
                    e.update(code_states=st["code_states"], paths=st["paths_checked"],
                             depth=st["max_depth"])
                per_schema[st["id"]]["explorations"].append(e)
                for mm in st["mismatch_list"][:3]:
                    rep.drift.append("%s [%s]: %s from %s: spec %s, code %s" % (
                        st["id"], st["mode"], mm["op"], mm["src"], mm["spec"], mm["code"]))
                if st["mismatches"] > 3:
                    rep.drift.append("%s [%s]: %d edges differ in total" % (
                        st["id"], st["mode"], st["mismatches"]))
                for pm in st["path_mismatch"][:2]:
                    rep.drift.append("%s: Import-based search and path execution differ: %s" % (
                        st["id"], pm))
                if st["mode"] == "sim":
                    continue
                differs = (st["mismatches"] or st["code_only"] or st["spec_only"]
                           or st["spec_states"] != st["code_states"])
                if differs:
                    rep.drift.append("%s [%s]: reachable sets differ: spec %d, code %d "
                                     "(code only %d, spec only %d)" % (
                                         st["id"], st["label"], st["spec_states"], st["code_states"],
                                         st["code_only"], st["spec_only"]))
                    continue
                if st["code_truncated"]:
                    raise Inconclusive("real-machine search of %s [%s] exceeded its bound" % (
                        st["id"], st["label"]))
                if st.get("incomplete_sample") is not None and not t["violated"]:
                    raise Inconclusive("TLC did not expand every state of %s (%s)" % (
                        st["id"], st["incomplete_sample"]))

        # ---- binding 2 + verdict: TLC evaluates the formulas on the code's output
        paths, index = build_traces(d, recs, state_files, mc, nshards=B["shards"])
        res = validate(paths, timeout=B["mc_timeout"])
        phases["tlc_trace_validation"] = round(time.time() - t0, 1)
        rep.coverage["phase_wall_s"] = phases
        go_states = path_edges = 0
        static_seen = set()
        for r, lines in zip(res, index):
            if r["result"] is None:
                raise Inconclusive("TraceSchemas did not finish for %s (rc=%s):\n%s" % (
                    r["file"], r["rc"], r["out"][-2500:]))
            x = r["result"]
            if x["lines"] != len(lines):
                raise Inconclusive("trace %s not fully consumed" % r["file"])
            go_states += x["nstates"]
            path_edges += x["nedges"]
            statics = {s["id"]: s for s in x["static"]}
            static_seen |= set(statics)
            for s in x["static"]:
                per_schema[s["id"]]["static"] = s["verdict"]
                per_schema[s["id"]]["exclusive_groups"] = dict(
                    cliques=s["cliques"], declared=s["declared"])
            per_key = {}
            for v in sorted(x["viol"], key=lambda v: (v[0], v[1], len(v[2]))):
                ln, f, detail = v[0], v[1], v[2]
                sid = lines[ln - 1]
                rec = byid[sid]
                if f in ("parses", "refs", "reqcycle", "reqremove", "names"):
                    report_static(rep, rec, f, statics.get(sid, {}))
                    continue
                # a reachable active set of the real machine breaks the formula
                per_key[(sid, f)] = per_key.get((sid, f), 0) + 1
                if per_key[(sid, f)] > 2:
                    continue
                if detail and isinstance(detail[0], int):
                    act = [rec["index"][p - 1] for p in detail]
                    pos = detail
                else:
                    act = list(detail)
                    pos = sorted(rec["index"].index(n) + 1 for n in act)
                ops = path_to(binary, d, rec, pos, B)
                if ops is not None:
                    ops = [["add" if o > 0 else "remove", rec["index"][abs(o) - 1]] for o in ops]
                sig = dict(formula=f, schema=sid, active=sorted(act))
                rep.violation(sig, dict(kind="state", property=PROP, formula=f, schema=sid,
                                        active=sorted(act), ops=ops),
                              "%s false in reachable set %s of %s; path from the empty machine: "
                              "%s; %d failing sets in this trace shard" % (
                                  f, sorted(act), sid,
                                  " ".join("%s1(%s)" % (o.capitalize(), n) for o, n in ops)
                                  if ops is not None else "(beyond the bound of the full search; "
                                  "reached in a restricted exploration)",
                                  x["nviol"]))
            for dr in x["drift"]:
                rep.drift.append("%s line %d: %s (%s)" % (os.path.basename(r["file"]), dr[0],
                                                         dr[1], dr[2]))
        missing = set(byid) - static_seen
        if missing:
            raise Inconclusive("static verdict missing for %s" % sorted(missing))

        dead = {sid: m["never_active"] for sid, m in modes.items() if m.get("never_active")}
        rep.coverage.update(
            states=tlc_states, transitions=tlc_edges,
            traces_validated_against_impl=replayed + path_edges,
            evaluations=replayed + go_states + path_edges + 5 * len(recs),
            distinct_nontrivial=nontrivial,
            code_states_evaluated_by_tlc=go_states, path_steps_validated_by_tlc=path_edges,
            schemas_discovered=len(cands), schemas_evaluated=len(recs),
            schemas_not_evaluated=skipped,
            schemas=per_schema, tlc_runs=tlc_runs,
            never_active_states=dead,
            rule="cases = every exported schema variable found by the go/parser scan; per schema "
                 "every edge (active set, Add1/Remove1 of a callable state) TLC explores from the "
                 "empty machine is one evaluation executed on a real am.Machine (Import-injected "
                 "source) + every active set of the real machine's own BFS is evaluated by TLC; "
                 "non-trivial = the edge changes the active set; mode per schema is listed under "
                 "coverage.schemas (full / core / groups + simulate)",
            samples=samples[:6] or [dict(note="no multi-state edge sampled")],
            exhaustive=all(m["mode"] == "full" for m in modes.values()),
            formulas=["parses", "refs", "reqcycle", "reqremove", "names", "requireclosed",
                      "groupexclusive"])
        rep.assumptions += [
            "schemas in internal/ packages, package main and nested modules cannot be imported by "
            "the dump program; they are listed under schemas_not_evaluated",
            "mixin schemas that refer to predefined states of pkg/machine (Start) without defining "
            "them are explored with those states added as plain states (completed_with)",
            "TLC explores a schema in full only while states*ops <= %d; larger ones are explored "
            "exhaustively over the relation core, else over the states around each exclusive group "
            "(calls restricted to those states, bound %d edges) plus tlc -simulate on the full "
            "schema; the real machine's own search covers up to %d sets / %d edges per schema" % (
                B["full_edges"], B["part_edges"], B["go_states"], B["go_edges"]),
            "spec flags model the repaired tree: " + json.dumps(FLAGS)]
    finally:
        shutil.rmtree(d, ignore_errors=True)
    return rep.finish()


def replay(path):
    obj = json.load(open(path))
    rep = Report(PROP, os.environ.get("VERIF_TIER", "quick"), "model_checking")
    binary = build_harness()
    d = scratch(PROP + "-replay")
    try:
        if obj.get("kind") == "builders":
            builders_part(binary, d, rep, seed(), 400)
            return rep.finish()
        cands, recs, skipped = discover_and_dump(binary, d, rep)
        rec = next((r for r in recs if r["id"] == obj["schema"]), None)
        if rec is None:
            raise Inconclusive("schema %s is not exported any more" % obj["schema"])
        tp = os.path.join(d, "trace.0.ndjson")
        with open(tp, "w") as f:
            f.write(schema_line(rec) + "\n")
            if obj["kind"] == "state":
                if obj.get("ops") is None:
                    raise Inconclusive("the violation was stored without a path")
                r = record(rec, "full", "replay", set(rec["index"]), 0)
                ip = os.path.join(d, "in.ndjson")
                write_records(ip, [r])
                pos = {n: i + 1 for i, n in enumerate(rec["index"])}
                missing = [n for _, n in obj["ops"] if n not in pos]
                if missing:
                    raise Inconclusive("states %s are not in the schema any more" % missing)
                ops = [pos[n] if o == "add" else -pos[n] for o, n in obj["ops"]]
                rc, out = run_stdout([binary, "schemas-path", "-in", ip, "-ops", json.dumps(ops)],
                                     timeout=600)
                if rc != 0:
                    raise Inconclusive("schemas-path failed: " + out[-1500:])
                for l in out.splitlines():
                    if l.startswith('{"ev"'):
                        f.write(l + "\n")
        res = validate([tp], timeout=600)[0]
        if res["result"] is None:
            raise Inconclusive("TraceSchemas did not finish:\n" + res["out"][-2000:])
        for dr in res["result"]["drift"]:
            rep.drift.append("replay line %d: %s (%s)" % (dr[0], dr[1], dr[2]))
        for v in res["result"]["viol"]:
            if v[1] == obj["formula"]:
                rep.violation(dict(formula=v[1], schema=obj["schema"], active=obj.get("active")),
                              obj, "replay: %s false for %s (%s)" % (v[1], obj["schema"], v[2]))
        rep.coverage.update(evaluations=max(res["result"]["nedges"], 1), distinct_nontrivial=2,
                            rule="replay", samples=[obj["schema"]], states=1, transitions=1,
                            traces_validated_against_impl=1)
    finally:
        shutil.rmtree(d, ignore_errors=True)
    return rep.finish()


if __name__ == "__main__":
    sys.exit(check(sys.argv[1] if len(sys.argv) > 1 else "quick"))
