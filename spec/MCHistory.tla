----------------------------- MODULE MCHistory -----------------------------
(* Bounded model of pkg/history (History.tla): every tracking configuration   *)
(* of a small space, every history of abstract transitions up to MaxSteps     *)
(* (accepted with any set of changed states, rejected, check), Sync points,   *)
(* Export/Import restarts; the write-behind queue, the lagging Saved counter  *)
(* and both orders of the GC / batch-write race for the persistent backends;  *)
(* PROCESS RESTARTS of the persistent backends (Reopen: the process stops     *)
(* after Sync, a new memory opens the same store - its counters, its          *)
(* predecessor record and, for a machine that does not resume from an         *)
(* Export, the clocks start again - and the history goes on).                 *)
(* The formulas of property C17 are computed in the action (verdict) for the  *)
(* behaviour the model gives the backend: with the flags of History.tla TRUE  *)
(* (code as it is) TLC reports the modelled defects, with the flags FALSE     *)
(* (repaired) the formulas are invariants.                                    *)
EXTENDS History

CONSTANTS Backend,      \* "memory" | "bbolt" | "badger" | "gorm"
          NS,           \* number of machine states
          MaxSteps,
          UseLists,     \* include Called / Changed allow and block lists
          CheckQueries, \* evaluate the whole query space in every state
          MaxMax, MaxBatch,
          MaxConds,     \* state conditions combined in one query (1..4)
          MaxRestarts,  \* process restarts on the same store (persistent backends)
          GcFromSaved   \* NOT the code: a rotation that keeps MaxRecords below the
                        \* per-process Saved counter instead of below the newest id
                        \* (TRUE only to see RotationTrims / Bounded fail after a Reopen)

VARIABLES cfg, time, machTick, made, db, pend, saved, savedGc, steps, verdict,
          pstart,    \* records created before this process opened the store
          opened,    \* records this process found in the store
          restarts

mvars == <<cfg, time, machTick, made, db, pend, saved, savedGc, steps, verdict, pstart, opened, restarts>>

States == 1..NS
Lists == IF UseLists THEN {<<>>} \cup {<<s>> : s \in States} ELSE {<<>>}
TrackedSpace ==
  IF NS = 1 THEN {<<1>>}
  ELSE IF CheckQueries THEN {<<1>>, <<2, 1>>}
  ELSE IF UseLists THEN {<<1>>} ELSE {<<1, 2>>}

CfgSpace ==
  {c \in [called : Lists, calledEx : BOOLEAN, changed : Lists, changedEx : BOOLEAN,
          rejected : BOOLEAN, tracked : TrackedSpace, qtracked : TrackedSpace,
          max : 1..MaxMax, batch : 1..MaxBatch] :
     /\ c.qtracked = c.tracked
     /\ (c.called = <<>> => ~c.calledEx) /\ (c.changed = <<>> => ~c.changedEx)
     /\ (Backend = "memory" => c.batch = 1)
     \* allow-listed states are tracked (NewMemory)
     /\ (~c.calledEx => SSet(c.called) \subseteq SSet(c.tracked))
     /\ (~c.changedEx => SSet(c.changed) \subseteq SSet(c.tracked))}

AllTrue == [match |-> TRUE, bounded |-> TRUE, keeps |-> TRUE, query |-> TRUE,
            order |-> TRUE, import |-> TRUE, trims |-> TRUE]

Zero == [i \in States |-> 0]

MCInit ==
  /\ cfg \in CfgSpace
  /\ time = Zero /\ machTick = 0
  /\ made = <<>> /\ db = <<>> /\ pend = <<>>
  /\ saved = 0 /\ savedGc = 0 /\ steps = 0
  /\ pstart = 0 /\ opened = 0 /\ restarts = 0
  /\ verdict = AllTrue

(* without lists the called states do not influence anything                 *)
CalledSpace == IF UseLists THEN {<<s>> : s \in States} \cup {<<1, 2>>} ELSE {<<1>>}

Ids(L) == [i \in 1..Len(L) |-> L[i].id]

QuerySpace(c) ==
  LET S == SSet(c.tracked)
      one == {<<>>} \cup {<<s>> : s \in S}
      ranges == {[tk |-> "none", lo |-> 0, hi |-> 0, mts |-> <<>>],
                 [tk |-> "sum", lo |-> 1, hi |-> 2, mts |-> <<>>],
                 [tk |-> "sum", lo |-> 2, hi |-> 4, mts |-> <<>>],
                 [tk |-> "mtime", lo |-> 1, hi |-> 2, mts |-> <<c.tracked[1]>>]}
      N(x) == IF x = <<>> THEN 0 ELSE 1
      conds == {t \in one \X one \X one \X one :
                  N(t[1]) + N(t[2]) + N(t[3]) + N(t[4]) <= MaxConds}
  IN  {[fn |-> "FindLatest", act |-> t[1], actd |-> t[2], inact |-> t[3], deact |-> t[4],
        tk |-> r.tk, lo |-> r.lo, hi |-> r.hi, mts |-> r.mts, limit |-> lim] :
         t \in conds, r \in ranges, lim \in {0, 1}}

(* one evaluation of the code's FindLatest per query: <<exact, ordered>>       *)
Judged(c, made2, db2) ==
  {LET a == FindImpl(Backend, c, made2, db2, Len(made2) + 1, q)
   IN  <<a.status = "ok" /\ QueryExact(c, made2, db2, q, a.res), NewestFirst(a.res)>> :
     q \in QuerySpace(c)}

KeepFrom(next, max) ==
  IF Backend \in KV /\ GcKeepsLess THEN next - max + 1 ELSE next - max

Gc(L, next, max) == SelectSeq(L, LAMBDA r : r.id >= KeepFrom(next, max))

(* opn = records the process found, rot = it has rotated, trims = the verdict *)
(* of RotationTrims for a rotation of this step (TRUE when there was none)    *)
StoreVerdict(c, made2, db2, pend2, match, opn, rot, trims) ==
  LET J == IF ~CheckQueries \/ pend2 # <<>> THEN {} ELSE Judged(c, made2, db2) IN
  [match |-> match, trims |-> trims,
   bounded |-> IF Backend = "memory" THEN BoundedExact(c.max, Len(made2), Ids(db2))
               ELSE BoundedLooseR(c.max, c.batch, Ids(db2), opn, rot),
   keeps |-> pend2 # <<>> \/ KeepsNewest(c.max, Len(made2), Ids(db2)),
   query |-> \A j \in J : j[1],
   order |-> InOrder(Ids(db2)) /\ \A j \in J : j[2],
   import |-> TRUE]

Tx ==
  /\ steps < MaxSteps
  /\ \E called \in CalledSpace : \E kind \in {"ok", "rej", "check"} : \E C \in SUBSET States :
     \E stale \in BOOLEAN : \E gcFirst \in BOOLEAN :
       /\ (kind # "ok" => C = {})
       /\ (Backend = "memory" => stale /\ gcFirst)
       /\ LET ta == [i \in States |-> time[i] + (IF i \in C THEN 1 ELSE 0)]
              tx == [called |-> called, tb |-> time, ta |-> ta, accepted |-> (kind = "ok"),
                     check |-> (kind = "check"), mtype |-> 0, machTick |-> machTick,
                     mi |-> steps + 1]
              m == MatchImpl(Backend, cfg, tx)
              prev == IF Len(made) = pstart THEN None ELSE made[Len(made)]
              r == MkRec(cfg, tx, prev, Len(made) + 1)
              made2 == IF m THEN Append(made, r) ELSE made
              next2 == Len(made2) + 1
              pend1 == IF m THEN Append(pend, r) ELSE pend
              flush == Backend # "memory" /\ m /\ Len(pend1) >= cfg.batch
              saved2 == IF flush THEN saved + Len(pend1) ELSE saved
              seen == IF stale THEN saved ELSE saved2
              gc == /\ flush /\ 2 * (seen - savedGc) > 3 * cfg.max
                    /\ ~(Backend = "gorm" /\ GormNoGc)
              \* the id the rotation trims below: the newest one (bbolt.go:819)
              top == IF GcFromSaved THEN seen + 1 ELSE next2
              db2 == IF Backend = "memory"
                     THEN (IF m THEN RotateAppend(db, r, cfg.max) ELSE db)
                     ELSE IF ~flush THEN db
                     ELSE IF ~gc THEN db \o pend1
                     ELSE IF gcFirst THEN Gc(db, top, cfg.max) \o pend1
                     ELSE Gc(db \o pend1, top, cfg.max)
              savedGc2 == IF gc THEN saved2 ELSE savedGc
              pend2 == IF Backend = "memory" \/ flush THEN <<>> ELSE pend1
              ok == (MustMatch(cfg, tx) => m) /\ (MustNotMatch(cfg, tx) => ~m)
          IN  /\ (~flush => stale /\ gcFirst)
              /\ (~gc => gcFirst)
              /\ time' = ta
              /\ made' = made2 /\ db' = db2 /\ pend' = pend2
              /\ saved' = saved2
              /\ savedGc' = savedGc2
              /\ verdict' = StoreVerdict(cfg, made2, db2, pend2, ok, opened, savedGc2 > 0,
                                         gc => RotationTrims(cfg.max, cfg.batch, Len(made) + 1, Ids(db2)))
  /\ steps' = steps + 1
  /\ UNCHANGED <<cfg, machTick, pstart, opened, restarts>>

(* Sync(): the queue is written, no GC attempt                                *)
SyncAct ==
  /\ Backend # "memory" /\ pend # <<>> /\ steps < MaxSteps
  /\ db' = db \o pend /\ pend' = <<>>
  /\ saved' = saved + Len(pend)
  /\ verdict' = StoreVerdict(cfg, made, db \o pend, <<>>, TRUE, opened, savedGc > 0, TRUE)
  /\ steps' = steps + 1
  /\ UNCHANGED <<cfg, time, machTick, made, savedGc, pstart, opened, restarts>>

(* Machine.Export -> Machine.Import (machine.go:3340-3419): the clocks are    *)
(* restored by name, the active states are the odd clocks, MachineTick + 1    *)
ExportOf == [time |-> time, machTick |-> machTick]
ImportOf(s) == [time |-> s.time, active |-> {i \in States : IsActive(s.time[i])},
                machTick |-> s.machTick + 1]

Restart ==
  /\ steps < MaxSteps /\ machTick < 1 /\ ~UseLists
  /\ LET im == ImportOf(ExportOf)
         x == [err |-> "", tb |-> time, ta |-> im.time, tapos |-> im.time,
               ab |-> SelectSeq([i \in States |-> i], LAMBDA i : IsActive(time[i])),
               aa |-> SelectSeq([i \in States |-> i], LAMBDA i : i \in im.active),
               mtb |-> machTick, mta |-> im.machTick]
     IN /\ time' = im.time /\ machTick' = im.machTick
        /\ verdict' = [verdict EXCEPT !.import = ImportRestores(x)]
  /\ steps' = steps + 1
  /\ UNCHANGED <<cfg, made, db, pend, saved, savedGc, pstart, opened, restarts>>

(* The process stops after Sync (nothing queued) and a new one opens the same *)
(* store: NewMemory + MachineInit.  The ids go on from the persisted NextId;  *)
(* Saved / SavedGc / lastRec belong to the memory object and start again; the *)
(* machine either resumes from an Export (clocks kept) or is a new one.       *)
Reopen ==
  /\ Backend \in Persistent /\ pend = <<>> /\ restarts < MaxRestarts /\ steps < MaxSteps
  /\ \E fresh \in BOOLEAN : time' = IF fresh THEN Zero ELSE time
  /\ saved' = 0 /\ savedGc' = 0
  /\ pstart' = Len(made) /\ opened' = Len(db) /\ restarts' = restarts + 1
  /\ verdict' = StoreVerdict(cfg, made, db, <<>>, TRUE, Len(db), FALSE, TRUE)
  /\ steps' = steps + 1
  /\ UNCHANGED <<cfg, machTick, made, db, pend>>

MCNext == Tx \/ SyncAct \/ Restart \/ Reopen

MCSpec == MCInit /\ [][MCNext]_mvars

Inv_OneRecordPerMatch == verdict.match
Inv_Bounded == verdict.bounded
Inv_KeepsNewest == verdict.keeps
Inv_QueryExact == verdict.query
Inv_NewestFirst == verdict.order
Inv_ImportRestores == verdict.import
Inv_RotationTrims == verdict.trims

MCView == <<cfg, time, machTick, made, db, pend, saved, savedGc, steps, verdict, pstart, opened, restarts>>
=============================================================================
