#!/usr/bin/env python3
"""Writes MANIFEST.json from the table below (single source of truth)."""
import json, os
ROOT = os.path.abspath(os.path.join(os.path.dirname(os.path.abspath(__file__)), ".."))

SEQ_NOTE = ("Assumes: TLC's exhaustive result holds within the stated constants only; the Go "
            "harness observes the machine through the public API, the am.Tracer interface and "
            "generated handler maps; the TLA+ formulas in spec/Props.tla are the reading of the "
            "property; trusted base = TLC, the Go toolchain, the harness recorder.")

CHECKS = {
 "C01": dict(level="model_checking", design_ref="DESIGN.md §4 C01",
   text="Exhaustive TLC exploration of spec/MCMachine.tla (every 2-state schema with Auto/Multi flags, every call history of 2 calls, every single veto) with tick-parity, monotonicity, documented-step, cancel-frozen and view-agreement formulas as invariants; the same formulas are evaluated by TLC on every transition the real machine executed (spec/TraceMachine.tla) and every public view (Is/Not/Any/ActiveStates/Tick/Time/Clock/String/StringAll/transition times) is sampled after every call.",
   technique="TLA+ spec + TLC exhaustive small scope; trace validation of recorded real executions against the spec"),
 "C02": dict(level="model_checking", design_ref="DESIGN.md §4 C02",
   text="The relation resolver is transcribed statement by statement into spec/Resolver.tla; TLC checks Require-closure, no Remove conflict, Add satisfaction and activation/deactivation justification on every transition of the bounded model, and on every logged transition of the real machine over the enumerated 2-state schema space and random 3..6-state relation graphs (cycles, Add chains).",
   technique="TLA+ transcription of the resolver, TLC invariants; trace validation (strict spec-vs-code comparison + property formulas on the code's output)"),
 "C03": dict(level="model_checking", design_ref="DESIGN.md §4 C03",
   text="All-or-nothing and truthful-Result formulas over whole public calls (call/transition/return events) are invariants of the bounded model with every veto position, and are evaluated by TLC on each recorded call of the real machine (result, state and ticks before/after, queue tick).",
   technique="TLA+ spec + TLC; trace validation of call/return events"),
 "C04": dict(level="model_checking", design_ref="DESIGN.md §4 C04", engine="queue",
   text="spec/Queue.tla models N callers racing on the CAS of processQueue at hook-point granularity (append, enter, CAS won/lost, pop, run with nested handler mutations, loop exit, release, queue end, re-check); TLC checks Mutex, NoStranding, NoneLost, TickOrder, TickCount, NoNesting exhaustively for 2-4 callers and EventuallyProcessed under fairness. The same hook points are gates on the real machine: every schedule of 2 callers x 1 mutation is forced (stateless depth-first enumeration, thorough tier) and larger scenarios are sampled; each recorded gate sequence is validated by TLC against Queue.tla and the C04 formulas are evaluated on the logged end state (queue empty, every returned tick processed, WhenQueue closed whether accepted or canceled, tick order, no two handlers/evals at once); free-running 8-16 goroutine workloads are judged on their end state.",
   note="Interleavings are enumerated at verif-hook granularity; the Go scheduler between two hook points is not enumerated. Trusted base: TLC, the gate scheduler of harness/gate, the verif hooks in processQueue/queueMutation.",
   technique="TLA+ spec of the queue race + TLC; schedule enumeration forced on the real code through gate hooks; trace validation"),
 "C05": dict(level="model_checking", design_ref="DESIGN.md §4 C05",
   text="Handler phase order, After/Require order (acyclic demands), negotiation-sees-before / final-sees-after, veto-stops and finals-once-per-change are TLA+ formulas over the handler log; checked exhaustively on the bounded model (After relations included) and on the handler log recorded from generated handler maps bound to the real machine.",
   technique="TLA+ spec + TLC; trace validation of recorded handler logs"),
 "C06": dict(level="model_checking", design_ref="DESIGN.md §4 C06", engine="subs",
   text="spec/Subs.tla models the subscription manager's bookkeeping literally (States map, Matched/Total, Completed, shared-vs-copied clock, channel reuse, state-context index) with a transition split into setActiveStates and processSubscriptions; TLC checks ClosedIff (no lost, no spurious wake-up), StateCtxIff and NeverPanics exhaustively for every subscription kind, context cancellation point, Multi re-activation, canceled transition, SetSchema and Dispose. On the real machine a mutator is parked at the verif hooks tx.applied / pq.beforeSubs while a subscriber acts inside the window; all channels and contexts are probed after every operation and TLC judges every probe against a ghost that depends only on the logged machine history.",
   note="WhenArgs is not modelled; 'a transition has run since' = an accepted transition was processed; inside the window a wake-up due at the end of the running transition is neither lost nor spurious. Trusted base: TLC, harness/gate, the probe (non-blocking receive on every channel).",
   technique="TLA+ spec of the subscription bookkeeping + TLC; window-placed scenarios forced through gate hooks; trace validation with probes after every step"),
 "C07": dict(level="model_checking", design_ref="DESIGN.md §4 C07",
   text="Auto-follows / only-when-demanded / judged-individually formulas over consecutive transitions, including the partial-acceptance code paths transcribed step by step (slice aliasing included); exhaustive on the bounded model with every veto of the auto states' handlers, and evaluated on recorded real executions.",
   technique="TLA+ spec + TLC; trace validation"),
 "C08": dict(level="fault_enumeration", design_ref="DESIGN.md §4 C08", engine="seq-machine",
   text="Every handler call of the faulty call (learned from a fault-free dry run: each Exit/Enter/self/state-state/AnyEnter/End/State/AnyState call of each binding, including the auto and Exception transitions it triggers) gets each fault kind - panic(string), panic(error), stall beyond HandlerTimeout - singly and paired with a second fault inside the Exception handlers, each followed by a probe call. spec/Faults.tla models recoverToErr / recoverFinalPhase / Event.IsValid step by step; TLC validates every recorded run against it and evaluates parity, negotiation-fault-frozen, exact final rollback, Exception-carries-message, timeout-reported and no-escape/no-hang on what the real machine did; the same formulas are invariants of the bounded FaultMode model.",
   technique="fault enumeration over handler positions on the real machine; TLA+ fault model (TLC bounded model + trace validation)"),
 "C09": dict(level="model_checking", design_ref="DESIGN.md §4 C09", engine="rpcsync",
   text="An explicit TLA+ model of the pkg/rpc clock-sync protocol (source tracer, server lastPush / lockExport, push vs reply ordering, FIFO wires, client apply / checksum / Sync, drop / reconnect / hello / handshake), one action per critical section, is model-checked within small bounds over six sync configurations: with every repair flag on, ConvergedAtQuiescence, ResyncAfterDrift, NoForeverBlock and ReadYourWrite are invariants and <>[]Converged holds under fairness; with the flags as the code is, TLC's counterexample histories are forced action by action on a real Server + Client + NetworkMachine over an in-memory link with gate hooks, free-running histories are run per sync mode, and every trace is validated by TLC with the formulas evaluated on the logged clocks.",
   note="Exhaustive only within the stated constants (2 tracked + 1 skipped state, <= 3-4 source mutations, <= 2-3 pushes, <= 1 drop, <= 2 syncs); index spaces and integer truncation are C10's; WebSocket, mux and payload paths are not modelled; the assignment of a violation to one cause is a heuristic made from the log. Trusted base: TLC, the in-memory link and gate hooks (pkg/rpc verif_sync_on.go).",
   technique="TLA+/TLC model checking + TLC-generated schedule replay through gate hooks + TLC trace validation"),
 "C10": dict(level="model_checking", design_ref="DESIGN.md §4 C10", engine="rpcdiff",
   text="TLC exhaustively checks a TLA+ transcription of the clock-diff encoder and decoder (three index spaces, uint8/16/32 truncation as 4x16-bit limb arithmetic) for RoundTrip, Applied and DriftRejected, on the code as it is over the sound domain and on the repaired design everywhere, and predicts the defect classes. The same formulas are evaluated on the output of the REAL tracer, calcUpdate, clockFromUpdate and clockUpdate code for every tracked subset x mode x per-state delta vector (0..4 for n<=3, 0..3 for n=4 in quick; n<=5 thorough), sampled 2^8/2^16/2^32 boundaries, first-push, grown-schema and per-mutation chains, with 2-7 drifted mirrors per case; every stage is compared with the spec.",
   note="Exhaustive within those bounds; n=6 and boundary values are sampled. The source clock is a settable am.Api; everything else is unmodified package code without the network (pkg/rpc verif_on.go). Trusted base: TLC, the Go toolchain, the harness.",
   technique="TLA+/TLC bounded model + function-level conformance (ndjson trace validation with the property formulas on logged values)"),
 "C11": dict(level="model_checking", design_ref="DESIGN.md §4 C11",
   text="The spec models map-order nondeterminism explicitly (auto-candidate order, topology DFS start order) behind flags; with the ordered variants TLC shows one behaviour per history. The binding re-executes every generated case >= 64 times on fresh machines and requires byte-identical recorded behaviour, and validates the reference executions against the ordered spec (auto order and topology are compared strictly).",
   technique="TLA+ spec with explicit map-order nondeterminism + TLC; repeated re-execution of the real code; trace validation"),
 "C13": dict(level="model_checking", design_ref="DESIGN.md §4 C13", engine="dispose",
   text="spec/Dispose.tla models any number of Dispose/DisposeForce/context attempts racing through the stages of doDispose (SingleWinner, DisposeHandlersOnce, AllWaitersReleased, Completes under fairness). On the real machine disposal is landed on an idle machine, a short and a long running queue, inside a negotiation handler, a final handler, Eval, and from inside a handler, by Dispose, DisposeForce, parent-context cancel, two Disposes and Dispose+DisposeForce, with and without handlers and with one outstanding waiter of every kind; the dd.* stage hooks are validated against the spec and the end state is judged: every waiter released, contexts cancelled, dispose handlers exactly once, handler loop exited, callers neither panicked nor blocked, ~75 later API calls return promptly with a neutral value.",
   note="Landing points are reached by blocking handlers / timing, not by gates inside doDispose; DisposeForce is documented to cause panics in concurrent callers (not counted). Trusted base: TLC, the dd.* and hl.exit hooks.",
   technique="TLA+ spec of the disposal stages + TLC; disposal scenarios on the real code; trace validation of stage hooks and end state"),
 "C15": dict(level="model_checking", design_ref="DESIGN.md §4 C15", engine="supervisor",
   text="Supervisor.tla resolves every supervisor mutation with the TLA+ transcription of the machine's relation resolver (Transition!RunTx) on the real SupervisorSchema (regenerated from the tree on every run) and adds the fork / ready gates and handler bodies as coded; TLC explores every order in which fork returns, connects, readiness flips, errors, kills, Heartbeat and NormalizingPool rounds reach the queue for pool settings 0..3 (plus random behaviours to 6) and checks WithinMax, NoForkAtMax, PoolReadyHonest, PoolReadyKept, KillRequested(Delivered), GroupsExclusive. The real Supervisor is driven through TestFork / TestKill gates with real in-memory workers; every transition is sampled through a verif accessor, validated by TLC against the spec's step, and the formulas are evaluated on the logged values, including TLC's own over-fork / short-pool / lost-error schedules forced on the code.",
   note="Bounded sub-models (<= 4 fork attempts, <= 3 errors, 2 rounds, queue overlap <= 3); readiness is the supervisor's own replica view; a PoolReady that stays active after the pool became short is counted but not judged; group exclusivity over all reachable sets is C19's, here it is checked on the recorded supervisor and worker traces. Trusted base: TLC, the TestFork/TestKill seams, pkg/node verif_on.go.",
   technique="TLA+/TLC bounded exhaustive model checking + trace validation of real executions + TLC-generated schedule replay"),
 "C16": dict(level="model_checking", design_ref="DESIGN.md §4 C16", engine="debugger",
   text="TLC exhaustively checks, on bounded models, that the transcription of hParseMsg / GetTransitionStates equals the derivation from consecutive records, that the transcribed binary searches (TxAtQueueTick, TxAtMachTime, TxIndex, HadErrSinceTx ...) equal linear scans on monotone input, and that the cursor / filter machine (Fwd, Back, ScrollToTx, ToggleTool, tail mode, ingestion) satisfies FilterSound, FwdBackIdentity and NoPanic from every reachable cursor position. A real headless am-dbg (tcell simulation screen) is driven with real telemetry from generated machines (directly and over loopback TCP, several clients), with TLC-generated command behaviours and with function-level look-ups; every logged value is validated by TLC: formulas (RecordFaithful, DerivedConsistent, LookupEqualsScan, FwdBackIdentity, FilterSound, ExportImportIdentity, NoPanic) for the verdict and the spec's own step for drift.",
   note="Exhaustive only within the constants (<= 6 records over 2-3 states; <= 4 records x <= 4 commands); end-to-end streams are seeded samples (exploration level); message GC, state groups, log/reader views and UI rendering are not covered; FilterSound is required when the debugger selects a transition, FwdBackIdentity for Fwd(1) that moved then Back(1). Trusted base: TLC, the headless debugger construction, tools/debugger verif_on.go.",
   technique="TLA+/TLC model checking + function-level conformance + trace validation of a headless debugger + model-based replay"),
 "C17": dict(level="model_checking", design_ref="DESIGN.md §4 C17", engine="history",
   text="TLC exhaustively explores spec/MCHistory.tla (every list / TrackRejected / tracked / Max / batch configuration of a 2-state space, every history of <= 4-6 abstract transitions incl. rejected and check ones, Sync, Export/Import, the lagging Saved counter and both GC/write orders) with OneRecordPerMatch, Bounded, KeepsNewest, QueryExact, NewestFirst, ImportRestores as invariants. The same formulas plus BackendsAgree and Durable are evaluated by TLC (spec/TraceHistory.tla) on what real memory / bbolt (thorough: + badger, gorm/sqlite, a crash point after every Sync) memories stored and answered for generated workloads and ~60 generated queries per case (all 16 presence combinations of the four state conditions x time kinds, the *Between helpers).",
   note="Exhaustive only within the MC constants. Stores are scanned directly after observed write quiescence; human time is expressed as mutation indexes; a crash point is a file copy after Sync's writes completed; where the property admits several readings a violation needs all of them contradicted. frostdb is out of scope. Trusted base: TLC, the Go toolchain, the harness.",
   technique="TLA+ spec + TLC exhaustive small scope; trace validation of recorded real executions on four backends"),
 "C18": dict(level="model_checking", design_ref="DESIGN.md §4 C18", engine="pipes",
   text="spec/Pipes.tla transcribes pipes.go and the target's mutation entry points (queue duplicate detection, Remove shortcut, pop-then-run loop). TLC checks FollowsAtQuiescence, BindAnyMirrors and SourceNeverBlocked over toggle bursts of up to 5-8 source mutations on 1-2 piped states with every delivery order. The spec variant the code refines is selected by trace-validating probe runs (strict variant first), and every complete behaviour TLC enumerates for that variant is forced on the real machines: an am.Api proxy of the target gates each forwarded call, and TLC trace validation evaluates the formulas on the logged source and target sets at every observed joint quiescence. Gated random schedules and free-running bursts cover Bind, BindMany, BindReady, BindStart, BindErr, BindConnected, BindAny and the flat variants.",
   note="Exhaustive only within the stated bounds. Non-local targets are an IsLocal()=false proxy (no rpc NetworkMachine). The target has no relations or handlers, so it never vetoes (the property's premise). Trusted base: TLC, the proxy/gate harness.",
   technique="TLA+/TLC model checking, TLC-generated schedule replay through a gated target proxy, ndjson trace validation"),
 "C19": dict(level="model_checking", design_ref="DESIGN.md §4 C19", engine="schemas",
   text="Every exported schema variable found by a go/parser scan is evaluated in the current tree by a generated program; TLC decides ParsesClean, RefsDefined (raw vs parsed, dropped references), NoRequireCycle, NoRequireRemoveConflict and NamesAgree on the dumped JSON. TLC (spec/MCSchemas.tla, Transition!RunTx to quiescence, VIEW = active set) explores Add1/Remove1 from the empty machine with RequireClosed and GroupExclusive (maximal mutual-Remove cliques and declared groups) as invariants; every explored edge is re-executed on a real am.Machine (Import-injected source), the reached state sets must equal the real machine's own BFS, and TLC evaluates the two formulas on every set and path step the real machine produced.",
   note="Exhaustive per schema only where coverage.schemas[..].mode = full (states x ops <= 10^5 quick, 2*10^6 thorough); larger schemas are exhaustive over the relation core or per exclusive-group cluster (calls restricted to those states), plus tlc -simulate and a bounded real-machine BFS on the full schema. Mixin fragments are completed with the predefined Start. Source sets are injected through Machine.Import (cross-checked by path replay on a seeded sample). Set comparison, not order. internal/testing and the nested wasm_workflow module cannot be imported and are listed as not evaluated. Trusted base: TLC, go/parser discovery, the generated dump program.",
   technique="TLA+/TLC model checking with TLC-generated edges replayed on the real machine + ndjson trace validation of the real machine's BFS"),
 "C20": dict(level="model_checking", design_ref="DESIGN.md §4 C20", engine="api",
   text="TLC checks on MCApiAlgebra that the Go-source model of every list / Time / queue helper satisfies the set-theoretic meaning of its name for all inputs over 3 known names plus 1 unknown (lists <= 3 with duplicates, 0-2 variadic lists, queues <= 3 with every Position), and checks a lifecycle model for copy semantics and wait/ask outcomes. The Go driver enumerates the same input space on the real functions, mutates every getter's return value and drives every Sync / Cant / Ask helper through accepted, vetoed, queued and disposed outcomes; TLC evaluates the law on every logged result. Every exported function and method (go/parser table plus reflection, so additions are covered) is called in 6 lifecycle phases x 4 argument classes inside journalled worker processes (a fatal stack overflow or deadlock is attributed to the journalled call).",
   note="Algebra, copy semantics and helpers are exhaustive within the stated bounds; the totality sweep is exploration (one representative value per argument class); documented panics (unknown state names, empty Eval source) are outside the premise and not generated. Trusted base: TLC, reflection / go/parser table generation, the worker-process journal.",
   technique="TLA+ function-level conformance + trace validation + reflective, crash-isolated totality sweep"),
 "C14": dict(level="model_checking", design_ref="DESIGN.md §4 C14",
   text="Callback order per transition, no interleaving, time chain (before = previous after), after = actual machine time, canceled = no change, last report = final time are formulas over the recording tracer's log; invariants of the bounded model and evaluated on every recorded transition.",
   technique="TLA+ spec + TLC; trace validation of tracer callbacks"),
}

NOT_YET = {
 "C12": "data-race freedom in the sense of the Go memory model is not expressible at the abstraction a TLA+ specification of this system works at: deciding it needs the Go race detector (a different technique), and instrumenting every shared access so that a lock-set specification could be trace-validated would amount to re-implementing that detector. The interleaving-level consequences the specs can see (atomic snapshots stay parity-consistent under concurrent readers, one transition at a time, no lost wake-ups) are covered by C01, C04 and C06.",
}

def main():
    props = [json.loads(l)["id"] for l in open(os.path.join(ROOT, "properties.jsonl"))]
    checks = []
    for pid in props:
        if pid not in CHECKS:
            continue
        c = CHECKS[pid]
        checks.append(dict(
            property_id=pid,
            quick_cmd="./check %s --tier quick" % pid,
            thorough_cmd="./check %s --tier thorough" % pid,
            evidence_file="evidence/%s.json" % pid,
            replay_cmd_template="./check %s --replay {path}" % pid,
            engine=c.get("engine", "seq-machine"),
            level_claimed=dict(category=c["level"], text=c["text"], design_ref=c["design_ref"]),
            level_note=c.get("note", SEQ_NOTE),
            technique=c["technique"]))
    na = [dict(property_id=p, reason=NOT_YET.get(p, "check not built yet in this round (work in progress; see DESIGN.md)"))
          for p in props if p not in CHECKS]
    man = dict(
        version=1,
        setup_cmd="./setup.sh",
        hooks=dict(guard="verif", enable="go build -tags verif (harness/ builds /repo with the tag)",
                   baseline_off_cmd="python3 tools/baseline.py /repo",
                   source_commits=[l.strip() for l in open(os.path.join(ROOT, "hooks_commits.txt")) if l.strip()]
                   if os.path.exists(os.path.join(ROOT, "hooks_commits.txt")) else [],
                   add_only=True),
        engines=[dict(name="schemas", path="spec/Schemas.tla spec/MCSchemas.tla spec/TraceSchemas.tla harness/schemas tools/schemascheck.py", serves_properties=["C19"], kind_free_text="TLA+ well-formedness formulas and reachable-set exploration of every shipped schema on the resolver transcription; edges replayed on real machines, real BFS validated"),
                 dict(name="supervisor", path="spec/Supervisor.tla spec/MCSupervisor.tla spec/TraceSupervisor.tla spec/SupSchema.tla harness/supdrv tools/supervisorcheck.py", serves_properties=["C15"], kind_free_text="TLA+ model of the node supervisor on top of Transition!RunTx; real supervisor driven through TestFork/TestKill gates"),
                 dict(name="debugger", path="spec/Debugger.tla spec/MCDebugger.tla spec/TraceDebugger.tla harness/dbgdrv tools/debuggercheck.py", serves_properties=["C16"], kind_free_text="TLA+ model of am-dbg's record derivation, look-ups and cursor/filter machine; headless debugger driven and validated"),
                 dict(name="rpcsync", path="spec/RpcSync*.tla spec/MCRpcSync*.tla spec/TraceRpcSync.tla harness/rpcdrv tools/rpcsynccheck.py", serves_properties=["C09"], kind_free_text="TLA+ protocol model; forced schedules over an in-memory link; trace validation"),
                 dict(name="rpcdiff", path="spec/RpcDiff.tla spec/MCRpcDiff.tla spec/TraceRpcDiff.tla harness/rpcdiff tools/rpcdiffcheck.py", serves_properties=["C10"], kind_free_text="TLA+ transcription of the clock-diff codec; function-level conformance"),
                 dict(name="history", path="spec/History.tla spec/MCHistory.tla spec/TraceHistory.tla harness/histdrv tools/historycheck.py", serves_properties=["C17"], kind_free_text="TLA+ model of the history log and queries; four real backends validated against it"),
                 dict(name="pipes", path="spec/Pipes.tla spec/MCPipes.tla spec/TracePipes.tla harness/pipesdrv tools/pipescheck.py", serves_properties=["C18"], kind_free_text="TLA+ model of pipe forwarding; delivery orders forced through a gated target proxy"),
                 dict(name="api", path="spec/ApiAlgebra.tla spec/MCApiAlgebra.tla spec/TraceApiAlgebra.tla harness/apidrv tools/apicheck.py", serves_properties=["C20"], kind_free_text="TLA+ laws vs code models of the helpers; lifecycle model; reflective totality sweep"),
                 dict(name="queue", path="spec/Queue.tla spec/TraceQueue.tla harness/gate harness/queuedrv tools/queuecheck.py", serves_properties=["C04"], kind_free_text="TLA+ spec of the processQueue race; schedules forced on the real machine through verif gate hooks; trace validation"),
                 dict(name="subs", path="spec/Subs.tla spec/MCSubs.tla spec/TraceSubs.tla harness/subsdrv tools/subscheck.py", serves_properties=["C06"], kind_free_text="TLA+ spec of the subscription manager; window-placed scenarios; trace validation with probes"),
                 dict(name="dispose", path="spec/Dispose.tla spec/TraceDispose.tla harness/dispdrv tools/disposecheck.py", serves_properties=["C13"], kind_free_text="TLA+ spec of doDispose stages; disposal scenarios; trace validation"),
                 dict(name="seq-machine", path="spec/Machine.tla spec/Faults.tla spec/Transition.tla spec/Resolver.tla spec/Props.tla spec/MCMachine.tla spec/TraceMachine.tla harness/seqdrv tools/seqcheck.py",
                      serves_properties=["C01", "C02", "C03", "C05", "C07", "C08", "C11", "C14"],
                      kind_free_text="TLA+ specification of the sequential machine checked by TLC; bound to the Go code by trace validation of recorded executions")],
        checks=checks,
        not_applicable=na,
        notes="Every check rebuilds harness/ against /repo's working tree with -tags verif. exit 2 = inconclusive.")
    json.dump(man, open(os.path.join(ROOT, "MANIFEST.json"), "w"), indent=1)

if __name__ == "__main__":
    main()
