#!/usr/bin/env python3
"""C08 -- handler faults are contained.

design half : MCMachine in FaultMode: every 2-state schema (sharded), a first
              call with ONE fault (panic or stall) at any handler of the full
              binding, then a fault-free probe call; invariants parity /
              C08 formulas / no hang / no escaping panic.
binding half: fault ENUMERATION on the real machine (harness faultenum): for
              every base case the faulty call is executed fault-free to learn
              every handler call it makes, then re-executed once per (handler
              call x {panic(string), panic(error), stall > HandlerTimeout}),
              optionally with a second fault inside the Exception handlers,
              each followed by a fault-free probe.  TLC validates every trace
              against spec/Faults.tla (strict) and evaluates the C08 formulas
              (Parity, NegFaultFrozen, FinalRollbackExact, ExceptionCarriesMsg,
              TimeoutReported, Contained = no panic escapes / no hang).
"""
import glob, json, os, shutil, sys

sys.path.insert(0, os.path.dirname(os.path.abspath(__file__)))
import tlcrun
import seqcheck
from common import *

PROP = "C08"


def check(tier):
    rep = Report(PROP, tier, "fault_enumeration")
    sd = seed()
    binary = build_harness()
    # ---- design half
    consts = dict(seqcheck.FLAGS, QueueLimit=5, MaxRel=1, FaultMode=True, Names="<-NamesAB",
                  MaxCalls=2, MaxVeto=0, UseAfter=False, UseFlags=True)
    shards = [(32, sd % 32)] if tier == "quick" else [(8, sd % 8), (8, (sd + 3) % 8)]
    runs = []
    for mod, idx in shards:
        r = tlcrun.run_tlc("MCMachine", dict(spec="MCSpec", consts=dict(consts, ShardMod=mod, ShardIdx=idx),
                                             view="MCView", invariants=seqcheck.INVARIANTS[PROP]),
                           workers=16, timeout=1500)
        if r["violated"] or (r["errors"] and not r["timed_out"]):
            raise Inconclusive("fault model violates its own formulas / TLC error: %s %s\n%s" % (
                r["violated"], r["errors"][:2], r["out"][-3000:]))
        runs.append(dict(config="AB flags FaultMode shard %d/%d" % (idx, mod),
                         states_generated=r["states"], distinct=r["distinct"],
                         wall_s=round(r["wall"], 1), timed_out=r["timed_out"]))
    rep.coverage["mc_runs"] = runs
    rep.coverage["states"] = sum(x["distinct"] for x in runs)
    rep.coverage["transitions"] = sum(x["states_generated"] for x in runs)
    # ---- binding half
    d = scratch(PROP)
    try:
        plan = [("s2", 40, False), ("rnd", 25, False), ("rnd", 15, True)] if tier == "quick" else \
               [("s2", 400, False), ("rnd", 300, False), ("rnd", 200, True), ("s2", 150, True)]
        files = []
        inj = bases = cases = 0
        for k, (mode, n, pairs) in enumerate(plan):
            pref = os.path.join(d, "fe%d" % k)
            cmd = [binary, "faultenum", "-mode", mode, "-n", str(n), "-seed", str(sd * 100 + k),
                   "-out", pref, "-shards", "16" if tier == "quick" else "48"]
            if pairs:
                cmd.append("-pairs")
            rc, out = run(cmd, timeout=3000)
            if rc != 0:
                raise Inconclusive("faultenum failed: " + out[-2000:])
            st = json.loads(out.strip().splitlines()[-1])
            inj += st["injections"]; bases += st["bases"]; cases += st["cases"]
            files += sorted(glob.glob(pref + ".*.ndjson"))
        lines, ntx = seqcheck.validate(PROP, files, rep)
        # distinct (handler kind, fault kind, phase of the transition) combinations
        kinds = set()
        samples = []
        hangs = 0
        for fn in files:
            for l in open(fn):
                if l.startswith('{"ev":"call"') and ('"panic":[[' in l or '"stall":[[' in l):
                    c = json.loads(l)
                    for p in c.get("panic") or []:
                        kinds.add((p[1][0], "panic-err" if str(p[2]).startswith("err:") else "panic", c["type"]))
                    for p in c.get("stall") or []:
                        kinds.add((p[1][0], "stall", c["type"]))
                    if len(samples) < 4:
                        samples.append(dict(call=c))
                elif l.startswith('{"ev":"ret"') and '"res":"hang"' in l:
                    hangs += 1
        rep.coverage.update(
            evaluations=inj, distinct_nontrivial=len(kinds), base_cases=bases,
            traces_validated_against_impl=cases, trace_lines=lines, transitions_validated=ntx,
            rule="one evaluation = one injected fault (handler call x fault kind) followed by a probe; "
                 "the handler calls are enumerated from a fault-free dry run of the same call, so every "
                 "Exit/Enter/self/state-state/AnyEnter/End/State/AnyState call of every binding of the "
                 "faulty call (and of the auto/Exception transitions it triggers) gets each fault kind; "
                 "distinct = distinct (handler kind, fault kind, mutation type) combinations",
            samples=samples, exhaustive=False)
        rep.assumptions += [
            "HandlerTimeout is 150 ms in fault runs; a stalled handler acknowledges after the timeout is reported on ErrInternal (no HandlerDeadline expiry)",
            "faults are one-shot (a scripted handler faults the first time it runs in the call)",
            "spec flags model the repaired tree: " + json.dumps(seqcheck.FLAGS)]
    finally:
        shutil.rmtree(d, ignore_errors=True)
    return rep.finish()


def replay(path):
    return seqcheck.replay(PROP, path)
