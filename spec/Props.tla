------------------------------- MODULE Props -------------------------------
(* The listed properties C01, C02, C03, C05, C07, C14 as TLA+ formulas over   *)
(* OBSERVATION records.  The same formulas are evaluated                      *)
(*   - by TLC on every transition of the bounded model (MCMachine), where the *)
(*     observation is built from the specification's own step, and            *)
(*   - by TLC on every transition the REAL machine executed (TraceMachine),   *)
(*     where the observation is what the recording tracer / handler maps of   *)
(*     the Go harness logged.                                                 *)
(*                                                                            *)
(* tx observation `o`:                                                        *)
(*   mut      [type, called, auto, check]                                     *)
(*   accepted BOOLEAN           Transition.IsAccepted at TransitionEnd        *)
(*   before   Seq(state)        active states before (Transition.StatesBefore)*)
(*   after    Seq(state)        Machine.ActiveStates at TransitionEnd         *)
(*   tb, ta   Seq(Nat)          Transition.TimeBefore / TimeAfter             *)
(*   mtime    Seq(Nat)          Machine.Time(nil) sampled at TransitionEnd    *)
(*   hlog     Seq([b, h, see])  handler calls: binding, name tuple, and the   *)
(*                              active states the handler body observed       *)
(*   vetoed   set of <<b, h>>   handler calls that returned false             *)
EXTENDS Faults

TimeActive(idx, t) == SelectSeq(idx, LAMBDA n : IsActiveTick(t[SIndex(idx, n)]))

SameSet(a, b) == SSet(a) = SSet(b)

---------------------------------------------------------------------------
(* C01 *)
C01_Parity(idx, o) ==
  \A i \in 1..Len(idx) : IsActiveTick(o.mtime[i]) <=> SHas(o.after, idx[i])

C01_ViewsAgree(idx, o) ==
  /\ o.ta = o.mtime                       \* transition's after-time = machine time
  /\ SIsUniq(o.after)
  /\ SameSet(o.after, TimeActive(idx, o.ta))
  /\ SameSet(o.before, TimeActive(idx, o.tb))

C01_Monotone(idx, o) == \A i \in 1..Len(idx) : o.ta[i] >= o.tb[i]

C01_Step(sch, idx, o) ==
  \A i \in 1..Len(idx) :
    LET d == o.ta[i] - o.tb[i]
        n == idx[i]
        was == SHas(o.before, n)
        is  == SHas(o.after, n)
    IN /\ d \in {0, 1, 2}
       /\ d = 2 => (sch[n].multi /\ SHas(o.mut.called, n) /\ was /\ is)
       /\ d = 1 => (was # is)
       /\ d = 0 => (was = is)

C01_CancelFrozen(o) ==
  (~o.accepted \/ o.mut.check) => (o.ta = o.tb /\ o.after = o.before)

C01_Tx(sch, idx, o) ==
  /\ C01_Parity(idx, o)
  /\ C01_ViewsAgree(idx, o)
  /\ C01_Monotone(idx, o)
  /\ C01_Step(sch, idx, o)
  /\ C01_CancelFrozen(o)

---------------------------------------------------------------------------
(* C01: every view of the machine agrees with every other                     *)
ViewsAgree(ix, v) ==
  /\ SIsUniq(v.active)
  /\ \A i \in 1..Len(ix) :
       LET n == ix[i]
           act == SHas(v.active, n)
       IN /\ IsActiveTick(v.time[i]) <=> act
          /\ v.ticks[i] = v.time[i]
          /\ v.clock[n] = v.time[i]
          /\ v.is[i] = act /\ v.not[i] = ~act /\ v.any[i] = act
          /\ (\E k \in 1..Len(v.str) : v.str[k] = <<n, v.time[i]>>) <=> act
          /\ \E k \in 1..Len(v.strall) : v.strall[k] = <<n, v.time[i]>>
  /\ Len(v.strall) = Len(ix)
  /\ Len(v.str) = Len(v.active)

---------------------------------------------------------------------------
(* C02 -- for completed, accepted, non-check transitions                      *)
C02_Applies(o) == o.accepted /\ ~o.mut.check

C02_RequireClosed(sch, o)    == C02_Applies(o) => RequireClosed(sch, o.after)
C02_NoRemoveConflict(sch, o) == C02_Applies(o) => NoRemoveConflict(sch, o.after)
C02_AddSatisfied(sch, o) ==
  C02_Applies(o) =>
    AddSatisfied(sch, o.before, o.after, o.mut.type = "remove", o.mut.called)
C02_ActivationJustified(sch, o) ==
  C02_Applies(o) =>
    ActivationJustified(sch, o.before, o.after, o.mut.type, o.mut.called)
C02_DeactivationJustified(sch, o) ==
  C02_Applies(o) =>
    DeactivationJustified(sch, o.before, o.after, o.mut.type, o.mut.called)
C02_NothingWithoutTx(o) == (~C02_Applies(o)) => o.after = o.before

C02_Tx(sch, o) ==
  /\ C02_RequireClosed(sch, o)
  /\ C02_NoRemoveConflict(sch, o)
  /\ C02_AddSatisfied(sch, o)
  /\ C02_ActivationJustified(sch, o)
  /\ C02_DeactivationJustified(sch, o)
  /\ C02_NothingWithoutTx(o)

---------------------------------------------------------------------------
(* C03 -- over a whole public call issued on an idle machine:                 *)
(*   c = [mut, res, before, tb, qb, after, ta, qa, target]                    *)
(*   res \in {"executed","canceled"}; before/after = active lists,            *)
(*   tb/ta = machine time, qb/qa = queue tick; target = resolved target of    *)
(*   the call's own transition (for Set).                                     *)
C03_CanceledFrozen(c) ==
  (c.res = "canceled" /\ ~c.selfMutating) => (c.after = c.before /\ c.ta = c.tb)

C03_ExecutedMeans(c) ==
  (c.res = "executed" /\ ~c.mut.check) =>
     CASE c.mut.type = "add"    -> SEvery(c.after1, c.mut.called)
       [] c.mut.type = "remove" -> SNone(c.after1, c.mut.called)
       [] c.mut.type = "set"    -> SameSet(c.after1, c.target)

C03_CheckPure(c) ==
  c.mut.check => (c.after = c.before /\ c.ta = c.tb /\ c.qa = c.qb)

(* a mutation (or check) on a backing-off machine is Canceled with no effect   *)
C03_RefusedWhenBackingOff(c) ==
  c.refused => (c.res = "canceled" /\ c.after = c.before /\ c.ta = c.tb /\ c.qa = c.qb)

C03_Call(c) == /\ C03_CanceledFrozen(c) /\ C03_ExecutedMeans(c) /\ C03_CheckPure(c)
               /\ C03_RefusedWhenBackingOff(c)

---------------------------------------------------------------------------
(* C05 -- handler lifecycle, over the handler log of one transition           *)
HKind(e) == e.h[1]
NegKinds == {"exit", "enter", "self", "ss", "anyenter"}
PhaseRank(k) ==
  CASE k = "exit" -> 1 [] k = "enter" -> 2 [] k = "self" -> 3 [] k = "ss" -> 3
    [] k = "anyenter" -> 4 [] k = "end" -> 5 [] k = "state" -> 5 [] k = "anystate" -> 6

C05_PhaseOrder(o) ==
  \A i, j \in 1..Len(o.hlog) :
     i < j => PhaseRank(HKind(o.hlog[i])) <= PhaseRank(HKind(o.hlog[j]))

(* within Exit handlers and within Enter handlers (and their finals) a state  *)
(* comes after the states it lists in After / Require.  The obligation        *)
(* "a before b" is claimed when b lists a and, inside the set of states that  *)
(* are being ordered, a cannot reach b backwards (the pair is not on a cycle  *)
(* of the combined After/Require order -- a cyclic demand is unsatisfiable).  *)
Precedes(sch, a, b) ==   \* a must come before b
  SHas(sch[b].after, a) \/ SHas(sch[b].require, a)

RECURSIVE PrecReach(_, _, _)
PrecReach(sch, S, R) ==    \* states of S that must come (transitively) after some state of R
  LET nxt == R \cup {y \in S : \E x \in R : Precedes(sch, x, y)}
  IN IF nxt = R THEN R ELSE PrecReach(sch, S, nxt)

PrecAcyclic(sch, S) == \A x \in S : x \notin (PrecReach(sch, S, {y \in S : Precedes(sch, x, y)}))

(* The lists being ordered are the transition's target list (Enter / State    *)
(* handlers follow it) and its exit list (Exit / End handlers).  The order    *)
(* obligation is claimed when the After/Require demands inside that list are  *)
(* acyclic (a cyclic demand cannot be met by any order).                      *)
C05_RelOrder(sch, o) ==
  \A k \in {"exit", "enter", "end", "state"} :
    LET pos == {i \in 1..Len(o.hlog) : HKind(o.hlog[i]) = k}
        S == CASE k = "enter" -> SSet(o.target0)
               [] k = "state" -> SSet(o.target)
               [] OTHER -> SSet(o.exits) \cup SSet(SDiff(o.before, o.target0))
    IN PrecAcyclic(sch, S) =>
         \A i, j \in pos :
           (i < j /\ o.hlog[i].b = o.hlog[j].b) =>
              \* a ran before b: a must not list b in After / Require
              ~Precedes(sch, o.hlog[j].h[2], o.hlog[i].h[2])

C05_NegotiationSeesBefore(o) ==
  \A i \in 1..Len(o.hlog) :
     HKind(o.hlog[i]) \in NegKinds => o.hlog[i].see = o.before

C05_FinalSeesAfter(o) ==
  \A i \in 1..Len(o.hlog) :
     HKind(o.hlog[i]) \notin NegKinds => SameSet(o.hlog[i].see, o.after)

(* a veto that is not absorbed by partial auto acceptance stops everything    *)
VetoAbsorbed(sch, o, e) ==
  /\ o.mut.auto
  /\ \/ (HKind(e) \in {"enter", "self"} /\ sch[e.h[2]].auto)
     \/ (HKind(e) = "ss" /\ sch[e.h[3]].auto)

C05_VetoStops(sch, o) ==
  \A i \in 1..Len(o.hlog) :
    (<<o.hlog[i].b, o.hlog[i].h>> \in o.vetoed /\ ~VetoAbsorbed(sch, o, o.hlog[i]))
      => /\ i = Len(o.hlog)
         /\ ~o.accepted
         /\ o.after = o.before /\ o.ta = o.tb

C05_FinalsOnlyIfAccepted(o) ==
  (\E i \in 1..Len(o.hlog) : HKind(o.hlog[i]) \notin NegKinds) => o.accepted

(* exactly once per changed state per binding that owns the handler           *)
C05_FinalsOncePerChange(sch, idx, hs, o) ==
  (o.accepted /\ ~o.mut.check /\ hs.on) =>
    \A b \in 1..Len(hs.binds) : \A i \in 1..Len(idx) :
      LET n == idx[i]
          d == o.ta[i] - o.tb[i]
          cntState == Cardinality({k \in 1..Len(o.hlog) :
                         o.hlog[k].b = b /\ o.hlog[k].h = <<"state", n>>})
          cntEnd   == Cardinality({k \in 1..Len(o.hlog) :
                         o.hlog[k].b = b /\ o.hlog[k].h = <<"end", n>>})
          entered  == d > 0 /\ SHas(o.after, n)
          exited   == d > 0 /\ ~SHas(o.after, n)
      IN /\ cntState = (IF entered /\ <<"state", n>> \in hs.binds[b].fin THEN 1 ELSE 0)
         /\ cntEnd   = (IF exited  /\ <<"end", n>>   \in hs.binds[b].fin THEN 1 ELSE 0)

(* "the bound handlers run": in an accepted transition every bound handler the  *)
(* documented sequence demands was called, for every binding that owns it.    *)
(* States that a negotiation handler rejected (partial auto acceptance) are   *)
(* left out of the demand.                                                    *)
HCalled(o, b, h) == \E i \in 1..Len(o.hlog) : o.hlog[i].b = b /\ o.hlog[i].h = h

RejectedState(o, s) ==
  \E i \in 1..Len(o.hlog) :
     /\ <<o.hlog[i].b, o.hlog[i].h>> \in o.vetoed
     /\ \/ o.hlog[i].h = <<"enter", s>> \/ o.hlog[i].h = <<"self", s>>
        \/ (HKind(o.hlog[i]) = "ss" /\ o.hlog[i].h[3] = s)

C05_Complete(sch, hs, o) ==
  (o.accepted /\ hs.on) =>
    \A b \in 1..Len(hs.binds) :
      LET neg == hs.binds[b].neg
          fin == hs.binds[b].fin
          kept(s) == SHas(o.target0, s) /\ SHas(o.target, s) /\ ~RejectedState(o, s)
          exits0 == SDiff(o.before, o.target0)
      IN /\ \A i \in 1..Len(o.exits) :
              (SHas(exits0, o.exits[i]) /\ <<"exit", o.exits[i]>> \in neg)
                 => HCalled(o, b, <<"exit", o.exits[i]>>)
         /\ \A i \in 1..Len(o.enters) :
              (kept(o.enters[i]) /\ <<"enter", o.enters[i]>> \in neg)
                 => HCalled(o, b, <<"enter", o.enters[i]>>)
         /\ o.mut.type # "remove" =>
              \A i \in 1..Len(o.before) :
                 (kept(o.before[i]) /\ <<"self", o.before[i]>> \in neg)
                    => HCalled(o, b, <<"self", o.before[i]>>)
         /\ \A i \in 1..Len(o.before) : \A j \in 1..Len(o.target0) :
              (/\ o.before[i] # o.target0[j] /\ kept(o.target0[j])
               /\ <<"ss", o.before[i], o.target0[j]>> \in neg)
                 => HCalled(o, b, <<"ss", o.before[i], o.target0[j]>>)
         /\ (<<"anyenter">> \in neg) => HCalled(o, b, <<"anyenter">>)
         /\ ~o.mut.check =>
              /\ \A i \in 1..Len(o.enters) :
                   (<<"state", o.enters[i]>> \in fin) => HCalled(o, b, <<"state", o.enters[i]>>)
              /\ \A i \in 1..Len(o.exits) :
                   (<<"end", o.exits[i]>> \in fin) => HCalled(o, b, <<"end", o.exits[i]>>)
              /\ (<<"anystate">> \in fin) => HCalled(o, b, <<"anystate">>)

C05_Tx(sch, idx, hs, o) ==
  /\ C05_Complete(sch, hs, o)
  /\ C05_PhaseOrder(o)
  /\ C05_RelOrder(sch, o)
  /\ C05_NegotiationSeesBefore(o)
  /\ C05_FinalSeesAfter(o)
  /\ C05_VetoStops(sch, o)
  /\ C05_FinalsOnlyIfAccepted(o)
  /\ C05_FinalsOncePerChange(sch, idx, hs, o)

---------------------------------------------------------------------------
(* C07 -- auto states.  `p` is the previous transition observation or the     *)
(* record [kind |-> "none"]; `o` the current observation (kind "tx"/"ret").   *)
DemandsAuto(sch, idx, p) ==
  /\ p.kind = "tx"
  /\ p.accepted /\ ~p.mut.check /\ ~p.mut.auto /\ ~IsHealthMut(p.mut)
  /\ p.ta # p.tb
  /\ AutoCandidates(sch, idx, p.after) # {}

C07_AutoFollows(sch, idx, p, o) ==
  DemandsAuto(sch, idx, p) =>
    /\ o.kind = "tx" /\ o.mut.auto /\ o.mut.type = "add"
    /\ SSet(o.mut.called) = AutoCandidates(sch, idx, p.after)
    /\ SIsUniq(o.mut.called)

C07_OnlyWhenDemanded(sch, idx, p, o) ==
  (o.kind = "tx" /\ o.mut.auto) => DemandsAuto(sch, idx, p)

(* own negotiation handlers of called auto state s that returned false        *)
OwnVeto(o, s) ==
  \E i \in 1..Len(o.hlog) :
     /\ <<o.hlog[i].b, o.hlog[i].h>> \in o.vetoed
     /\ \/ o.hlog[i].h = <<"enter", s>>
        \/ o.hlog[i].h = <<"self", s>>
        \/ (HKind(o.hlog[i]) = "ss" /\ o.hlog[i].h[3] = s)

(* a veto that is NOT an Auto state's own: an exit / AnyEnter handler, or a      *)
(* handler of a non-Auto state of the target.  Such a veto cancels the whole   *)
(* auto transition and is not judged (permissive reading).  The handlers of    *)
(* an Auto state that is ALREADY ACTIVE (self, state-state into it) are that   *)
(* state's own: rejecting it must not cancel the called ones either            *)
(* (transition.go: `t.IsAuto() && t.cacheSchema[state].Auto` at all 3 sites).  *)
ForeignVeto(sch, o) ==
  \E i \in 1..Len(o.hlog) :
     /\ <<o.hlog[i].b, o.hlog[i].h>> \in o.vetoed
     /\ ~\E s \in {n \in DOMAIN sch : sch[n].auto} :
           \/ o.hlog[i].h = <<"enter", s>>
           \/ o.hlog[i].h = <<"self", s>>
           \/ (HKind(o.hlog[i]) = "ss" /\ o.hlog[i].h[3] = s)

(* "relations reject it" is read permissively: a called state is excused when *)
(* the resolution of the whole called list (o.target0) or the resolution of   *)
(* the surviving called states drops it.                                      *)
C07_JudgedIndividually(fx, sch, topo, hs, o) ==
  (o.kind = "tx" /\ o.mut.auto /\ ~ForeignVeto(sch, o)) =>
    LET surv == SelectSeq(o.mut.called, LAMBDA s : SHas(o.target0, s) /\ ~OwnVeto(o, s))
        want == TargetStates(fx, sch, topo, surv \o o.before, o.before,
                             FALSE, o.mut.called)
        \* a scripted own negotiation handler of s that the transition had to ask
        Rejecting(s) ==
          \E v \in o.vetoedOnly :
             /\ v[1] \in 1..Len(hs.binds) /\ v[2] \in hs.binds[v[1]].neg
             /\ \/ v[2] = <<"enter", s>>
                \/ (v[2][1] = "ss" /\ v[2][3] = s /\ SHas(o.before, v[2][2]) /\ v[2][2] # s)
    IN /\ \A i \in 1..Len(surv) : SHas(want, surv[i]) => SHas(o.after, surv[i])
       \* ... and a called state whose own handler says no does not end up active
       /\ hs.on => \A i \in 1..Len(o.mut.called) :
             LET s == o.mut.called[i] IN
             \* (when some own handler did reject s, s may still come back through
             \* another state's Add relation in the re-resolution: not judged)
             (SHas(o.after, s) /\ ~SHas(o.before, s) /\ SHas(o.target0, s) /\ ~OwnVeto(o, s))
                => ~Rejecting(s)

---------------------------------------------------------------------------
(* C14 -- tracer reports.  o.tlog = sequence of callback names the recording  *)
(* tracer received for this transition, o.tforeign = TRUE iff a callback of   *)
(* another transition arrived between this one's Init and End.                *)
C14_CallbackOrder(o) ==
  o.tlog = (<<"init", "start">> \o (IF o.applied THEN <<"finals">> ELSE <<>>) \o <<"end">>)

C14_TimeChain(p, o) == (p.kind = "tx" /\ o.kind = "tx" /\ ~p.faulted) => o.tb = p.ta

C14_AfterIsActual(o) == o.ta = o.mtime

C14_CanceledNoChange(o) == ~o.accepted => o.ta = o.tb

C14_Tx(p, o) ==
  /\ C14_CallbackOrder(o) /\ C14_TimeChain(p, o)
  /\ C14_AfterIsActual(o) /\ C14_CanceledNoChange(o)
=============================================================================
