// Package rpcdrv drives a REAL rpc.Server + rpc.Client pair (C09) over an
// in-memory connection the harness owns, records the sync protocol through the
// verif_sync hook points of pkg/rpc as ndjson for spec/TraceRpcSync.tla, and
// forces schedules (gates, message-by-message delivery, cuts) that loopback
// timing essentially never produces.
package rpcdrv

import (
	"errors"
	"io"
	"net"
	"os"
	"sync"
	"time"
)

// bufioSize is the buffer of the bufio.Writer rpc2's gob codec flushes through:
// a message is written as ONE Write unless it is larger, in which case every
// Write but the last has exactly this size.
const bufioSize = 4096

// half is one direction of a Link: an unbounded FIFO of written chunks. Write
// never blocks; Read blocks while nothing is deliverable. While the direction
// is HELD only the bytes explicitly granted by Step are deliverable. Cut makes
// reads and writes fail (undelivered bytes are LOST, like bytes in flight on a
// broken TCP connection).
type half struct {
	mu   sync.Mutex
	cond *sync.Cond
	// undelivered chunks, in write order
	chunks [][]byte
	// bytes of the head chunks the reader may take while held
	granted  int
	held     bool
	cut      bool
	closedW  bool // writer closed its end: reader gets EOF after draining
	mute     bool // a close of the writer does NOT reach the reader (no FIN)
	deadline time.Time
	// messages written / granted so far (a message = a run of chunks whose
	// every chunk but the last is bufioSize long)
	msgsWritten int
	msgsStepped int
}

func newHalf() *half {
	h := &half{}
	h.cond = sync.NewCond(&h.mu)
	return h
}

func (h *half) write(p []byte) (int, error) {
	h.mu.Lock()
	defer h.mu.Unlock()
	if h.cut || h.closedW {
		return 0, io.ErrClosedPipe
	}
	if len(p) == 0 {
		return 0, nil
	}
	h.chunks = append(h.chunks, append([]byte(nil), p...))
	if len(p) != bufioSize {
		h.msgsWritten++
	}
	h.cond.Broadcast()
	return len(p), nil
}

func (h *half) pendingBytes() int {
	n := 0
	for _, c := range h.chunks {
		n += len(c)
	}
	return n
}

// pendingMsgs is the number of complete undelivered, ungranted messages.
func (h *half) pendingMsgs() int {
	return h.msgsWritten - h.msgsStepped
}

func (h *half) read(p []byte) (int, error) {
	h.mu.Lock()
	defer h.mu.Unlock()
	for {
		if h.cut {
			return 0, io.ErrUnexpectedEOF
		}
		avail := h.pendingBytes()
		if h.held && h.granted < avail {
			avail = h.granted
		}
		if avail > 0 {
			n := 0
			for n < len(p) && n < avail && len(h.chunks) > 0 {
				c := h.chunks[0]
				k := len(c)
				if k > len(p)-n {
					k = len(p) - n
				}
				if k > avail-n {
					k = avail - n
				}
				copy(p[n:n+k], c[:k])
				n += k
				if k == len(c) {
					h.chunks = h.chunks[1:]
				} else {
					h.chunks[0] = c[k:]
				}
			}
			if h.granted >= n {
				h.granted -= n
			} else {
				h.granted = 0
			}
			return n, nil
		}
		if !h.held && h.closedW {
			return 0, io.EOF
		}
		if !h.deadline.IsZero() && !time.Now().Before(h.deadline) {
			return 0, os.ErrDeadlineExceeded
		}
		if !h.deadline.IsZero() {
			t := time.AfterFunc(time.Until(h.deadline), func() {
				h.mu.Lock()
				h.cond.Broadcast()
				h.mu.Unlock()
			})
			h.cond.Wait()
			t.Stop()
		} else {
			h.cond.Wait()
		}
	}
}

func (h *half) set(f func()) {
	h.mu.Lock()
	f()
	h.cond.Broadcast()
	h.mu.Unlock()
}

// step grants the oldest ungranted complete message. False: there is none.
func (h *half) step() bool {
	h.mu.Lock()
	defer h.mu.Unlock()
	if h.pendingMsgs() <= 0 {
		return false
	}
	// the bytes already granted cover whole messages at the head of the chunk
	// list (possibly partly consumed); skip them, then take one message
	skip := h.granted
	i := 0
	for i < len(h.chunks) && skip > 0 {
		skip -= len(h.chunks[i])
		i++
	}
	n := 0
	for i < len(h.chunks) {
		n += len(h.chunks[i])
		last := len(h.chunks[i]) != bufioSize
		i++
		if last {
			break
		}
	}
	h.granted += n
	h.msgsStepped++
	h.cond.Broadcast()
	return true
}

// end is one endpoint (net.Conn) of a Link.
type end struct {
	rd, wr *half
	name   string
	once   sync.Once
}

type memAddr string

func (a memAddr) Network() string { return "mem" }
func (a memAddr) String() string  { return string(a) }

func (e *end) Read(p []byte) (int, error)  { return e.rd.read(p) }
func (e *end) Write(p []byte) (int, error) { return e.wr.write(p) }
func (e *end) Close() error {
	e.once.Do(func() {
		// the peer sees EOF after draining, local reads fail
		e.wr.set(func() {
			if e.wr.mute {
				return
			}
			if e.wr.held {
				// a close while delivery is held: the undelivered bytes are lost
				// and the reader fails at once (RST rather than FIN), as the
				// specification's "wires cleared"
				e.wr.cut = true
				e.wr.chunks = nil
				return
			}
			e.wr.closedW = true
		})
		e.rd.set(func() { e.rd.cut = true })
	})
	return nil
}
func (e *end) LocalAddr() net.Addr  { return memAddr(e.name) }
func (e *end) RemoteAddr() net.Addr { return memAddr(e.name + "-peer") }
func (e *end) SetDeadline(t time.Time) error {
	e.rd.set(func() { e.rd.deadline = t })
	return nil
}
func (e *end) SetReadDeadline(t time.Time) error  { return e.SetDeadline(t) }
func (e *end) SetWriteDeadline(t time.Time) error { return nil }

// Link is an in-memory duplex connection with per-direction hold / release,
// message-by-message delivery and cut.
type Link struct {
	c2s, s2c *half
	Cli, Srv net.Conn
}

// NewLink creates a connection; held: both directions start held.
func NewLink(name string, held bool) *Link {
	l := &Link{c2s: newHalf(), s2c: newHalf()}
	l.c2s.held, l.s2c.held = held, held
	l.Cli = &end{rd: l.s2c, wr: l.c2s, name: name + "-c"}
	l.Srv = &end{rd: l.c2s, wr: l.s2c, name: name + "-s"}
	return l
}

func (l *Link) dir(d string) *half {
	if d == "c2s" {
		return l.c2s
	}
	return l.s2c
}

// Hold stops delivery in one direction ("c2s" | "s2c"); messages queue up.
func (l *Link) Hold(d string) {
	h := l.dir(d)
	h.set(func() {
		if !h.held {
			h.held = true
			h.granted = 0
			h.msgsStepped = h.msgsWritten - h.countPending()
		}
	})
}

// countPending counts the complete messages among the undelivered chunks
// (caller holds mu).
func (h *half) countPending() int {
	n := 0
	for _, c := range h.chunks {
		if len(c) != bufioSize {
			n++
		}
	}
	return n
}

// Release resumes delivery.
func (l *Link) Release(d string) {
	h := l.dir(d)
	h.set(func() {
		h.held = false
		h.granted = 0
		h.msgsStepped = h.msgsWritten
	})
}

// Step delivers exactly one more message of a held direction.
func (l *Link) Step(d string) bool { return l.dir(d).step() }

// PendingMsgs is the number of complete messages written and not yet granted.
func (l *Link) PendingMsgs(d string) int {
	h := l.dir(d)
	h.mu.Lock()
	defer h.mu.Unlock()
	return h.pendingMsgs()
}

// MsgsWritten is the number of complete messages written in a direction.
func (l *Link) MsgsWritten(d string) int {
	h := l.dir(d)
	h.mu.Lock()
	defer h.mu.Unlock()
	return h.msgsWritten
}

// Cut breaks the connection in both directions; undelivered bytes are lost.
func (l *Link) Cut() {
	l.c2s.set(func() { l.c2s.cut = true; l.c2s.chunks = nil })
	l.s2c.set(func() { l.s2c.cut = true; l.s2c.chunks = nil })
}

// CutCli breaks only what the CLIENT reads (the client notices at once, the
// server keeps waiting on the dead connection, like a peer that vanished
// without a FIN); CutSrv breaks what the server reads.
func (l *Link) CutCli() {
	l.c2s.set(func() { l.c2s.mute = true })
	l.s2c.set(func() { l.s2c.cut = true; l.s2c.chunks = nil })
}
func (l *Link) CutSrv() { l.c2s.set(func() { l.c2s.cut = true; l.c2s.chunks = nil }) }

// Listener is an in-memory net.Listener: the harness pushes the server end of
// every new Link.
type Listener struct {
	ch     chan net.Conn
	closed chan struct{}
	once   sync.Once
	name   string
}

func NewListener(name string) *Listener {
	return &Listener{ch: make(chan net.Conn, 8), closed: make(chan struct{}),
		name: name}
}

func (l *Listener) Accept() (net.Conn, error) {
	select {
	case c := <-l.ch:
		return c, nil
	case <-l.closed:
		return nil, net.ErrClosed
	}
}

func (l *Listener) Close() error {
	l.once.Do(func() { close(l.closed) })
	return nil
}
func (l *Listener) Addr() net.Addr { return memAddr(l.name) }

// Push hands a server-side connection to Accept.
func (l *Listener) Push(c net.Conn) error {
	select {
	case l.ch <- c:
		return nil
	case <-l.closed:
		return errors.New("listener closed")
	}
}
