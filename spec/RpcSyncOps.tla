----------------------------- MODULE RpcSyncOps -----------------------------
(* Pure operators of the clock-sync protocol (C09), shared by RpcSync.tla      *)
(* (the model) and TraceRpcSync.tla (validation of what the real code did).   *)
(* A clock is [t: state -> tick, q: queue tick]; a server snapshot            *)
(* (tracerData) additionally carries `sum`, the number the server checksums.  *)
(* W32 is the stand-in for 2^32 (see RpcSync.tla, Abstraction).               *)
EXTENDS Integers, Sequences, FiniteSets

None == [k |-> "none"]
W32 == 1048576
W16 == 65536

Active(t) == t % 2 = 1

RECURSIVE SumOver(_, _)
SumOver(f, S) == IF S = {} THEN 0
                 ELSE LET x == CHOOSE y \in S : TRUE IN f[x] + SumOver(f, S \ {x})

(* sourceTracer.TransitionEnd: tracerData of a source clock.  `sum` is what   *)
(* the server checksums: the tracked ticks; for shallow clocks the number of  *)
(* active states of the (schema: whole, no schema: tracked) 0/1 time slice    *)
SnapOf(schema, shallow, fixsum, tracked, c) ==
  LET sumStates == IF shallow /\ schema /\ ~fixsum THEN DOMAIN c.t ELSE tracked
  IN  [t |-> [s \in tracked |-> IF shallow THEN c.t[s] % 2 ELSE c.t[s]],
       q |-> c.q,
       sum |-> IF shallow
               THEN Cardinality({s \in sumStates : Active(c.t[s])})
               ELSE SumOver(c.t, tracked)]

(* calcUpdate: the diff message FROM lastPushData TO data                     *)
DiffOf(shallow, from, to) ==
  [d |-> [s \in DOMAIN to.t |->
            IF shallow THEN (IF from.t[s] % 2 # to.t[s] % 2 THEN 1 ELSE 0)
            ELSE (to.t[s] - from.t[s]) % W32],
   q |-> (to.q - from.q) % W16,
   ck |-> (to.sum + to.q) % 256]

EmptyDiff(u) == \A s \in DOMAIN u.d : u.d[s] = 0

(* calcUpdateMutations: one (deep) diff per queued mutation, chained          *)
RECURSIVE ChainOf(_, _)
ChainOf(prev, q) ==
  IF q = <<>> THEN <<>>
  ELSE <<DiffOf(FALSE, prev, Head(q))>> \o ChainOf(Head(q), Tail(q))

(* clockFromUpdate                                                            *)
ApplyTo(m, u) ==
  [t |-> [s \in DOMAIN m.t |-> IF s \in DOMAIN u.d THEN m.t[s] + u.d[s] ELSE m.t[s]],
   q |-> m.q + u.q]

(* the checksum the client computes for a candidate clock; for shallow clocks  *)
(* the code sums am.NewTime(t, trackedIdxs): ONE PER TRACKED STATE, whatever   *)
(* its tick (`extra`: tracked states of the real machine the model leaves out) *)
CliSumOf(shallow, fixsum, tracked, extra, m) ==
  IF shallow
  THEN (IF fixsum THEN Cardinality({s \in tracked : Active(m.t[s])})
        ELSE Cardinality(tracked) + extra)
  ELSE SumOver(m.t, DOMAIN m.t)

CliCheckOf(shallow, fixsum, tracked, extra, m) ==
  (CliSumOf(shallow, fixsum, tracked, extra, m) + m.q) % 256

AcceptsOf(shallow, fixsum, tracked, extra, m, u) ==
  CliCheckOf(shallow, fixsum, tracked, extra, ApplyTo(m, u)) = u.ck

(* clockUpdateMutations: apply the chain until the first mismatch             *)
RECURSIVE ApplyChainOf(_, _, _, _, _, _)
ApplyChainOf(shallow, fixsum, tracked, extra, m, us) ==
  IF us = <<>> THEN [m |-> m, ok |-> TRUE]
  ELSE IF AcceptsOf(shallow, fixsum, tracked, extra, m, Head(us))
       THEN ApplyChainOf(shallow, fixsum, tracked, extra, ApplyTo(m, Head(us)), Tail(us))
       ELSE [m |-> m, ok |-> FALSE]

(* what the property compares: ticks of the synchronised states (parity for   *)
(* shallow clocks)                                                            *)
MatchesOf(shallow, tracked, m, c) ==
  \A s \in tracked : IF shallow THEN m.t[s] % 2 = c.t[s] % 2 ELSE m.t[s] = c.t[s]

(* read-your-write: the mirror is not older than the snapshot of the reply    *)
CoversOf(shallow, tracked, m, data) ==
  \A s \in tracked : IF shallow THEN TRUE ELSE m.t[s] >= data.t[s]
=============================================================================
