------------------------------ MODULE Dispose ------------------------------
(* Machine.Dispose / DisposeForce / parent-context cancellation               *)
(* (machine.go:376-516): any number of attempts, each running doDispose on    *)
(* its own goroutine, racing one another.  One action per stage between two   *)
(* verif hook points dd.enter .. dd.done.                                     *)
EXTENDS Naturals, Sequences, FiniteSets, TLC

CONSTANTS Attempts,     \* set of attempt ids
          Forced        \* subset of Attempts that are DisposeForce calls

VARIABLES pc,          \* attempt -> "none" | hook point | "bailed"
          disposing, disposed,
          subsClosed,  \* subs.dispose ran: every When* channel closed, state ctxs cancelled
          dhRuns,      \* how many times the registered dispose handlers ran
          ctxCancelled, whenDisposed

vars == <<pc, disposing, disposed, subsClosed, dhRuns, ctxCancelled, whenDisposed>>

Init ==
  /\ pc = [a \in Attempts |-> "none"]
  /\ disposing = FALSE /\ disposed = FALSE /\ subsClosed = FALSE
  /\ dhRuns = 0 /\ ctxCancelled = FALSE /\ whenDisposed = FALSE

Move(a, p) == pc' = [pc EXCEPT ![a] = p]

(* doDispose entry                                                            *)
Enter(a) == pc[a] = "none" /\ Move(a, "dd.enter")
            /\ UNCHANGED <<disposing, disposed, subsClosed, dhRuns, ctxCancelled, whenDisposed>>

(* `if disposed return; if !disposing.CAS(false,true) return`                 *)
CasDisposing(a) ==
  /\ pc[a] = "dd.enter"
  /\ IF disposed \/ disposing
     THEN Move(a, "bailed") /\ UNCHANGED disposing
     ELSE disposing' = TRUE /\ Move(a, "dd.disposing")
  /\ UNCHANGED <<disposed, subsClosed, dhRuns, ctxCancelled, whenDisposed>>

(* wait for the queue (or DisposeTimeout) unless forced, then                 *)
(* `if !disposed.CAS(false,true) return`                                      *)
CasDisposed(a) ==
  /\ pc[a] = "dd.disposing"
  /\ IF disposed THEN Move(a, "bailed") /\ UNCHANGED disposed
     ELSE disposed' = TRUE /\ Move(a, "dd.disposed")
  /\ UNCHANGED <<disposing, subsClosed, dhRuns, ctxCancelled, whenDisposed>>

Lock(a) == pc[a] = "dd.disposed" /\ Move(a, "dd.locked")
           /\ UNCHANGED <<disposing, disposed, subsClosed, dhRuns, ctxCancelled, whenDisposed>>

SubsDispose(a) == pc[a] = "dd.locked" /\ subsClosed' = TRUE /\ Move(a, "dd.subsDisposed")
                  /\ UNCHANGED <<disposing, disposed, dhRuns, ctxCancelled, whenDisposed>>

Settle(a) == pc[a] = "dd.subsDisposed" /\ Move(a, "dd.handlers")
             /\ UNCHANGED <<disposing, disposed, subsClosed, dhRuns, ctxCancelled, whenDisposed>>

Finish(a) ==
  /\ pc[a] = "dd.handlers"
  /\ dhRuns' = dhRuns + 1 /\ ctxCancelled' = TRUE /\ whenDisposed' = TRUE
  /\ Move(a, "dd.done")
  /\ UNCHANGED <<disposing, disposed, subsClosed>>

Step(a) == Enter(a) \/ CasDisposing(a) \/ CasDisposed(a) \/ Lock(a) \/ SubsDispose(a)
           \/ Settle(a) \/ Finish(a)
Next == \E a \in Attempts : Step(a)
Spec == Init /\ [][Next]_vars
FairSpec == Spec /\ \A a \in Attempts : WF_vars(Step(a))

---------------------------------------------------------------------------
(* C13 *)
Winners == {a \in Attempts : pc[a] \notin {"none", "dd.enter", "bailed"}}
SingleWinner == Cardinality(Winners) <= 1
DisposeHandlersOnce == dhRuns <= 1 /\ (whenDisposed => dhRuns = 1)
AllWaitersReleased == whenDisposed => (subsClosed /\ ctxCancelled /\ disposed)
Completes == (\E a \in Attempts : pc[a] # "none") ~> whenDisposed
=============================================================================
