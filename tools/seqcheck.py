#!/usr/bin/env python3
"""Checks of the sequential-machine family (C01 C02 C03 C05 C07 C11 C14).

design half : TLC explores spec/MCMachine.tla exhaustively within small
              constants with the property's formulas as invariants
binding half: harness/seqdrv drives the REAL machine through generated cases,
              the recording tracer / handler maps log every transition, and
              TLC (spec/TraceMachine.tla) evaluates, per logged transition,
              (a) the property formulas on the logged observation -> verdict
              (b) the specification's own step against the log    -> drift
"""
import glob, json, os, shutil, sys, time
from collections import Counter

sys.path.insert(0, os.path.dirname(os.path.abspath(__file__)))
import tlcrun
from common import *

# the specification models the repaired tree (see findings/known_findings.jsonl)
FLAGS = dict(Transitive=True, TopoSort=True, ExitFix=True, SelfFix=True, OrderedAuto=True,
             OrderedTopo=True, LoopFix=True, EndFix=True, AutoFaultFix=True)

FORMULAS = {
    "C01": ["c01", "c01pred"],
    "C02": ["c02req", "c02rem", "c02add", "c02act", "c02deact", "c02none"],
    "C03": ["c03"],
    "C05": ["c05"],
    "C07": ["c07follows", "c07only", "c07judged", "nocrash"],
    "C08": ["c08", "nocrash", "nohang"],
    "C11": [],
    "C14": ["c14", "c14last"],
}

INVARIANTS = {
    "C01": ["Inv_C01", "Inv_C01_State", "Inv_C01_Predicted"],
    "C02": ["Inv_C02_RequireClosed", "Inv_C02_NoRemoveConflict", "Inv_C02_AddSatisfied",
            "Inv_C02_ActivationJustified", "Inv_C02_DeactivationJustified",
            "Inv_C02_NothingWithoutTx"],
    "C03": ["Inv_C03"],
    "C05": ["Inv_C05"],
    "C07": ["Inv_C07_AutoFollows", "Inv_C07_OnlyWhenDemanded", "Inv_C07_Judged", "Inv_NoCrash"],
    "C08": ["Inv_C08", "Inv_NoHang", "Inv_NoCrash", "Inv_C01_State"],
    "C11": ["Inv_C11", "Inv_C01_State"],
    "C14": ["Inv_C14", "Inv_C14_Last"],
}

# (mode, cases, calls-per-case, veto probability) per property and tier
PLANS = {
    "quick": {
        "C01": [("s2", 600, 4, 0.4), ("rnd", 500, 5, 0.4), ("auto", 250, 5, 0.5)],
        "C02": [("s2", 600, 3, 0.0), ("rnd", 900, 4, 0.2), ("chain", 40, 3, 0.0), ("auto", 300, 5, 0.5)],
        "C03": [("s2", 600, 4, 0.7), ("rnd", 500, 4, 0.7)],
        "C05": [("s2after", 500, 3, 0.5), ("rnd", 500, 4, 0.5), ("dag", 500, 4, 0.3), ("auto", 400, 5, 0.5)],
        "C07": [("s2", 600, 4, 0.6), ("rnd", 500, 5, 0.6), ("auto", 600, 5, 0.5)],
        "C11": [],
        "C14": [("s2", 600, 4, 0.5), ("rnd", 500, 5, 0.5), ("auto", 400, 5, 0.5)],
    },
    "thorough": {
        "C01": [("s2", 1024, 8, 0.4), ("s2after", 4096, 5, 0.4), ("rnd", 12000, 8, 0.4), ("auto", 6000, 6, 0.5)],
        "C02": [("s2", 1024, 6, 0.0), ("rnd", 30000, 5, 0.2), ("chain", 200, 3, 0.0), ("auto", 8000, 6, 0.5)],
        "C03": [("s2", 1024, 8, 0.7), ("s2after", 4096, 4, 0.7), ("rnd", 12000, 6, 0.7)],
        "C05": [("s2after", 4096, 6, 0.5), ("rnd", 16000, 6, 0.5), ("dag", 12000, 6, 0.3), ("auto", 8000, 6, 0.5)],
        "C07": [("s2", 1024, 8, 0.6), ("s2after", 4096, 5, 0.6), ("rnd", 12000, 8, 0.6), ("auto", 12000, 6, 0.5)],
        "C11": [],
        "C14": [("s2", 1024, 8, 0.5), ("s2after", 4096, 5, 0.5), ("rnd", 12000, 8, 0.5), ("auto", 8000, 6, 0.5)],
    },
}


def mc_configs(prop, tier, sd):
    base = dict(FLAGS, QueueLimit=5, MaxRel=1, ShardMod=1, ShardIdx=0, FaultMode=False)
    cfgs = []
    if tier == "quick":
        cfgs.append(("AB flags, 2 calls, <=1 veto, shard 1/4",
                     dict(base, Names="<-NamesAB", MaxCalls=2, MaxVeto=1, UseAfter=(prop == "C05"),
                          UseFlags=(prop != "C05"), ShardMod=4, ShardIdx=sd % 4), 900))
    else:
        cfgs.append(("AB flags, 2 calls, <=2 veto",
                     dict(base, Names="<-NamesAB", MaxCalls=2, MaxVeto=2, UseAfter=False,
                          UseFlags=True), 900))
        cfgs.append(("AB after+flags, 2 calls, <=1 veto, shard 1/4",
                     dict(base, Names="<-NamesAB", MaxCalls=2, MaxVeto=1, UseAfter=True,
                          UseFlags=True, ShardMod=4, ShardIdx=sd % 4), 900))
        cfgs.append(("ABC no flags, 1 call, <=1 veto, shard 1/64",
                     dict(base, Names="<-NamesABC", MaxCalls=1, MaxVeto=1, UseAfter=False,
                          UseFlags=False, MaxRel=2, ShardMod=64, ShardIdx=sd % 64), 900))
    if prop == "C11":
        # Inv_C11's auto-order half needs >= 2 Auto candidates at once, which two user
        # states never give: three states with every Auto / Multi flag, no relations
        cfgs.append(("ABC flags only (no relations), %d call(s), <=1 veto" % (1 if tier == "quick" else 2),
                     dict(base, Names="<-NamesABC", MaxCalls=1 if tier == "quick" else 2, MaxVeto=1,
                          UseAfter=False, UseFlags=True, MaxRel=0), 900))
    return cfgs


def run_mc(prop, tier, rep):
    sd = seed()
    states = trans = 0
    runs = []
    for label, consts, to in mc_configs(prop, tier, sd):
        r = tlcrun.run_tlc("MCMachine", dict(spec="MCSpec", consts=consts, view="MCView",
                                             invariants=INVARIANTS[prop]),
                           workers=16, timeout=to)
        runs.append(dict(config=label, states_generated=r["states"], distinct=r["distinct"],
                         wall_s=round(r["wall"], 1), violated=r["violated"],
                         timed_out=r["timed_out"]))
        if r["violated"]:
            # the specification itself breaks the formula: the model no longer
            # describes a design that satisfies the property -> not a verdict on
            # the code, the run is inconclusive
            raise Inconclusive("specification violates %s in config '%s':\n%s" % (
                list(r["violated"]), label, r["out"][-3000:]))
        if r["errors"] and not r["timed_out"]:
            raise Inconclusive("TLC error in '%s': %s\n%s" % (label, r["errors"][:3], r["out"][-2000:]))
        states += r["distinct"]
        trans += r["states"]
    rep.coverage["mc_runs"] = runs
    rep.coverage["states"] = states
    rep.coverage["transitions"] = trans


def reconstruct_case(path, lineno):
    """CaseJ (harness replay input) for the trace that contains line `lineno`."""
    init = None
    calls = []
    with open(path) as f:
        for i, l in enumerate(f, 1):
            if i > lineno:
                break
            if l.startswith('{"ev":"init"'):
                init = json.loads(l)
                calls = []
            elif l.startswith('{"ev":"call"') or l.startswith('{"ev":"env"'):
                calls.append(json.loads(l))
    names = [n for n in init["index"] if n != "Exception"]
    raw = {k: v for k, v in init["raw"].items() if k != "Exception"}
    return dict(label=init["label"], names=names, schema=raw, on=init["hs"]["on"],
                binds=init["hs"]["binds"] if init["hs"]["on"] else [],
                calls=[dict(ev=c["ev"], type=c["type"], called=c["called"], check=c["check"],
                            veto=c["veto"], nest=c["nest"], panic=c.get("panic", []),
                            stall=c.get("stall", []), backoff=c.get("backoff", False)) for c in calls])


# share of calls whose final handlers issue further mutations (queued behind the
# running transition; exercises duplicate detection, the Remove shortcut and the
# queue limit of 4)
NESTP = {"C01": 0.2, "C03": 0.3, "C14": 0.3, "C05": 0.1, "C07": 0.2}


# share of histories with a stretch during which the machine is backing off (C03: "a
# mutation on a ... backing-off machine ... is Canceled with no effect")
BACKOFFP = {"C03": 0.25, "C01": 0.1}


# share of bindings bound as HandlersBind(&struct) - methods, func fields, methods /
# func fields promoted from an embedded struct - instead of handler maps (C05: "the
# bound handlers run ... once per changed state per binding", whatever the binding form)
FORMSP = {"C05": 0.5}


def prop_of_plan(plan):
    for tier in PLANS.values():
        for prop, pl in tier.items():
            if pl is plan:
                return prop
    return None


def generate(binary, plan, outdir, sd, nestp=0.0):
    files = []
    ncases = nlines = 0
    for k, (mode, n, calls, vetop) in enumerate(plan):
        pref = os.path.join(outdir, "%s%d" % (mode, k))
        rc, out = run([binary, "seq", "-mode", mode, "-n", str(n), "-calls", str(calls),
                       "-seed", str(sd * 1000 + k), "-vetop", str(vetop), "-nestp", str(nestp),
                       "-backoffp", str(BACKOFFP.get(prop_of_plan(plan), 0.0)),
                       "-forms", str(FORMSP.get(prop_of_plan(plan), 0.0)),
                       "-out", pref, "-shards", "16" if os.environ.get("VERIF_TIER", "quick") == "quick" else "64"],
                      timeout=1200 if os.environ.get("VERIF_TIER", "quick") == "quick" else 6000)
        if rc != 0:
            raise Inconclusive("driver failed (%s): %s" % (mode, out[-2000:]))
        st = json.loads(out.strip().splitlines()[-1])
        ncases += st["cases"]
        nlines += st["lines"]
        files += sorted(glob.glob(pref + ".*.ndjson"))
    return files, ncases, nlines


def nontrivial_stats(files, limit_samples=4):
    """distinct, non-trivial transitions: the key is (schema label, mutation,
    active-before, vetoes) and a transition is non-trivial when it changed a
    tick, was vetoed, or was an auto/check mutation."""
    keys = set()
    samples = []
    ntx = 0
    for fn in files:
        label = None
        for l in open(fn):
            if l.startswith('{"ev":"init"'):
                label = l[:200]
            elif l.startswith('{"ev":"tx"'):
                ntx += 1
                x = json.loads(l)
                nontriv = x["ta"] != x["tb"] or x["vetoed"] or x["mut"]["auto"] or x["mut"]["check"] \
                    or not x["accepted"]
                if nontriv:
                    keys.add((label, json.dumps(x["mut"]), tuple(x["before"]),
                              json.dumps(x["vetoed"])))
                    if len(samples) < limit_samples and (x["vetoed"] or x["mut"]["auto"]):
                        samples.append({k: x[k] for k in ("mut", "accepted", "before", "after",
                                                          "tb", "ta", "target", "vetoed")})
    return ntx, len(keys), samples


def form_stats(files):
    """bindings per binding form (hs.binds[i].form of the init lines) and, per form,
    the accepted transitions that ran at least one of the binding's handlers."""
    forms, ran = Counter(), Counter()
    for fn in files:
        cur = []
        for l in open(fn):
            if l.startswith('{"ev":"init"'):
                hs = json.loads(l)["hs"]
                cur = [b.get("form", "map") for b in hs["binds"]] if hs["on"] else []
                forms.update(cur)
            elif l.startswith('{"ev":"tx"') and cur:
                x = json.loads(l)
                for b in {c["b"] for c in x["hlog"]}:
                    if 1 <= b <= len(cur):
                        ran[cur[b - 1]] += 1
    return dict(forms), dict(ran)


def validate(prop, files, rep, formulas=None):
    formulas = FORMULAS[prop] if formulas is None else formulas
    res = tlcrun.validate_traces("TraceMachine", dict(FLAGS, QueueLimit=4), files,
                                 timeout=3000)
    lines = ntx = 0
    for r in res:
        if r["result"] is None:
            raise Inconclusive("trace validation did not finish for %s (rc=%s):\n%s" % (
                r["file"], r["rc"], r["out"][-3000:]))
        nl = sum(1 for _ in open(r["file"]))
        if r["result"]["lines"] != nl:
            raise Inconclusive("trace %s not fully consumed" % r["file"])
        lines += nl
        ntx += r["result"]["ntx"]
        for l, f in r["result"]["viol"]:
            if f not in formulas:
                continue
            case = reconstruct_case(r["file"], l)
            line = tlcrun.line_of(r["file"], l)
            sig = dict(formula=f, schema=case["schema"], mutation=line.get("mut"),
                       before=line.get("before"))
            rep.violation(sig, dict(kind="seq", property=prop, formula=f, case=case),
                          "formula %s false on logged transition %s (case %s)" % (
                              f, json.dumps(line)[:300], case["label"]))
        for l, f in r["result"]["drift"]:
            rep.drift.append("%s line %d: %s" % (os.path.basename(r["file"]), l, f))
    return lines, ntx


def check(prop, tier):
    rep = Report(prop, tier, "model_checking")
    sd = seed()
    binary = build_harness()
    run_mc(prop, tier, rep)
    d = scratch(prop)
    try:
        files, ncases, nlines = generate(binary, PLANS[tier][prop], d, sd, NESTP.get(prop, 0.0))
        lines, ntx = validate(prop, files, rep)
        ntx2, distinct, samples = nontrivial_stats(files)
        if prop == "C01":
            readers_part(binary, tier, sd, d, rep)
            faults_part(binary, tier, sd, d, rep)
        if prop == "C14":
            many_goroutines_part(binary, tier, sd, d, rep)
        if prop in FORMSP:
            forms, ran = form_stats(files)
            rep.coverage["binding_forms"] = forms
            rep.coverage["binding_form_transitions"] = ran
            if len([f for f in forms if f != "map"]) < 4:
                raise Inconclusive("the struct binding forms were not exercised: %s" % forms)
        rep.coverage.update(
            traces_validated_against_impl=ncases, evaluations=ntx, distinct_nontrivial=distinct,
            trace_lines=lines,
            rule="cases = (schema, handler bindings, call history with veto script) from "
                 "harness/gen (S2 space enumerated, random 3..6-state schemas); each logged "
                 "transition is one evaluation; distinct = distinct (schema, mutation, "
                 "active-before, vetoes); non-trivial = changed a tick, was vetoed/canceled, "
                 "or was an auto/check mutation",
            samples=samples or [dict(note="no vetoed/auto sample in this run")],
            formulas=FORMULAS[prop], exhaustive=False)
        rep.assumptions += [
            "TLC explores the bounded model completely only within the stated constants",
            "the recording tracer and generated handler maps observe the machine through its public API",
            "spec flags model the repaired tree: " + json.dumps(FLAGS)]
    finally:
        shutil.rmtree(d, ignore_errors=True)
    return rep.finish()


def readers_part(binary, tier, sd, d, rep):
    """C01, concurrent readers: a reader samples every view while the mutator is
    parked right after setActiveStates (hook tx.applied); two more readers sample
    StringAll (one atomic snapshot) and Time() all the time."""
    n = 150 if tier == "quick" else 4000
    pref = os.path.join(d, "readers")
    rc, out = run([binary, "readers", "-n", str(n), "-seed", str(sd), "-out", pref], timeout=3000)
    if rc != 0:
        raise Inconclusive("readers driver failed: " + out[-1500:])
    files = sorted(glob.glob(pref + ".*.ndjson"))
    res = tlcrun.validate_traces("TraceViews", {}, files, timeout=3000)
    nsamples = 0
    for r in res:
        if r["result"] is None:
            raise Inconclusive("TraceViews failed: " + r["out"][-1500:])
        nsamples += r["result"]["ntx"]
        for l, f in r["result"]["viol"]:
            line = tlcrun.line_of(r["file"], l)
            rep.violation(dict(formula=f, reader=True), dict(kind="readers", property="C01", formula=f, sample=line),
                          "reader sample violates %s: %s" % (f, json.dumps(line)[:300]))
    rep.coverage["reader_samples"] = nsamples


def faults_part(binary, tier, sd, d, rep):
    """C01 under handler faults: "for all ... handler panics/timeouts" - the fault
    enumeration of C08 (one run per handler call x {panic, stall}), judged by the
    C01 formulas: parity and agreement of the views after every recovery."""
    plan = [("s2", 25, False), ("rnd", 15, False)] if tier == "quick" else \
           [("s2", 250, False), ("rnd", 200, False), ("rnd", 100, True)]
    files = []
    inj = 0
    for k, (mode, n, pairs) in enumerate(plan):
        pref = os.path.join(d, "c01fe%d" % k)
        cmd = [binary, "faultenum", "-mode", mode, "-n", str(n), "-seed", str(sd * 100 + 50 + k),
               "-out", pref, "-shards", "16" if tier == "quick" else "48"]
        if pairs:
            cmd.append("-pairs")
        rc, out = run(cmd, timeout=3000)
        if rc != 0:
            raise Inconclusive("faultenum failed: " + out[-2000:])
        inj += json.loads(out.strip().splitlines()[-1])["injections"]
        files += sorted(glob.glob(pref + ".*.ndjson"))
    lines, ntx = validate("C01", files, rep)
    rep.coverage["fault_injections_judged"] = inj
    rep.coverage["fault_transitions_judged"] = ntx


def many_goroutines_part(binary, tier, sd, d, rep):
    """C14, mutations from many goroutines: the tracer must never see a transition
    start while another one of the same machine is open.  Forced schedules of 3
    callers (gate hooks of processQueue) and free-running 8-goroutine workloads;
    judged by TraceQueue's `mutex` / `handlers-overlap` formulas (the latter also
    carries the tracer's maximum of simultaneously open transitions)."""
    plans = [(3, 2, ["-random", "250" if tier == "quick" else "8000"]),
             (8, 30, ["-free", "60" if tier == "quick" else "1500"])]
    n = 0
    for i, (callers, muts, mode) in enumerate(plans):
        pref = os.path.join(d, "mg%d" % i)
        rc, out = run([binary, "queue", "-callers", str(callers), "-muts", str(muts), "-seed", str(sd * 7 + i),
                       "-out", pref] + mode, timeout=3000)
        if rc != 0:
            if rep.violations:
                # the forced schedules already showed interleaved transitions; a library
                # that then crashes the free-running driver does not take the verdict back
                rep.notes.append("free-running queue driver died: " + out[-300:])
                break
            raise Inconclusive("queue driver failed: " + out[-1500:])
        files = sorted(glob.glob(pref + ".*.ndjson"))
        consts = dict(Callers="{" + ", ".join(str(c) for c in range(1, callers + 1)) + "}", MutsPer=muts,
                      NestCodes="{}", PrepCodes="{}", Recheck=True)
        for r in tlcrun.validate_traces("TraceQueue", consts, files, timeout=3000):
            if r["result"] is None:
                raise Inconclusive("TraceQueue failed: " + r["out"][-1500:])
            n += r["result"]["ntx"]
            for l, f in r["result"]["viol"]:
                if f in ("mutex", "handlers-overlap"):
                    line = tlcrun.line_of(r["file"], l)
                    rep.violation(dict(formula="no-interleave:" + f, goroutines=callers),
                                  dict(kind="queue", property="C14", formula=f, line=line),
                                  "two transitions of one machine overlapped (%s): %s" % (f, json.dumps(line)[:300]))
    rep.coverage["many_goroutine_executions"] = n


def check_c11(tier):
    """Determinism: TLC decides on the model that, with index-ordered auto
    candidates and topology, a history has exactly one behaviour; the binding
    re-executes every case >= 64 times on fresh machines and compares the
    complete recorded behaviour, and validates the reference executions."""
    prop = "C11"
    rep = Report(prop, tier, "model_checking")
    sd = seed()
    binary = build_harness()
    run_mc(prop, tier, rep)
    d = scratch(prop)
    try:
        n, reps = (300, 64) if tier == "quick" else (3000, 256)
        pref = os.path.join(d, "det")
        rc, out = run([binary, "det", "-n", str(n), "-reps", str(reps), "-seed", str(sd),
                       "-out", pref], timeout=3000)
        if rc != 0:
            raise Inconclusive("det driver failed: " + out[-2000:])
        st = json.loads(out.strip().splitlines()[-1])
        diffs = json.load(open(pref + ".diffs.json")) or []
        for x in diffs:
            sig = dict(formula="same-history-same-behaviour", schema=x["schema"], calls=x["calls"])
            case = dict(label=x["case"], names=[n_ for n_ in x["index"] if n_ != "Exception"],
                        schema={k: v for k, v in x["schema"].items()}, on=True, binds="full",
                        calls=x["calls"])
            rep.violation(sig, dict(kind="det", property=prop, case=case, reps=reps),
                          "two executions of %s differ at line %d: %s  VS  %s" % (
                              x["case"], x["line"], json.dumps(x["a"])[:200], json.dumps(x["b"])[:200]))
        lines, ntx = validate(prop, [pref + ".0.ndjson"], rep, formulas=[])
        ntx2, distinct, samples = nontrivial_stats([pref + ".0.ndjson"])
        rep.coverage.update(
            traces_validated_against_impl=st["cases"], evaluations=st["executions"],
            distinct_nontrivial=distinct, reexecutions_per_case=reps, trace_lines=lines,
            rule="each case (schema with several Auto states / Require components / random "
                 "relations + call history) is executed `reps` times on fresh machines; the "
                 "full recorded behaviour (results, times, handler sequence, active-state "
                 "order, topology) must be byte-identical; distinct = distinct non-trivial "
                 "transitions of the reference executions",
            samples=samples or [dict(note="no sample")], exhaustive=False)
        rep.assumptions += ["map-order dependence shows up within %d re-executions" % reps]
    finally:
        shutil.rmtree(d, ignore_errors=True)
    return rep.finish()


def replay(prop, path):
    obj = json.load(open(path))
    rep = Report(prop, os.environ.get("VERIF_TIER", "quick"), "model_checking")
    binary = build_harness()
    d = scratch(prop + "-replay")
    try:
        inp = os.path.join(d, "case.ndjson")
        with open(inp, "w") as f:
            f.write(json.dumps(obj["case"]) + "\n")
        if obj.get("kind") == "det":
            # re-execute many times
            outs = set()
            for k in range(obj.get("reps", 64)):
                rc, out = run([binary, "replay", "-in", inp, "-out", os.path.join(d, "r")])
                if rc != 0:
                    raise Inconclusive(out)
                outs.add(open(os.path.join(d, "r.0.ndjson")).read())
            if len(outs) > 1:
                rep.violation(dict(formula="same-history-same-behaviour"), obj,
                              "re-executions of the replay case differ")
            rep.coverage.update(evaluations=obj.get("reps", 64), distinct_nontrivial=2,
                                rule="replay", samples=[obj["case"]["label"]])
            return rep.finish()
        rc, out = run([binary, "replay", "-in", inp, "-out", os.path.join(d, "r")])
        if rc != 0:
            raise Inconclusive(out)
        lines, ntx = validate(prop, [os.path.join(d, "r.0.ndjson")], rep)
        rep.coverage.update(evaluations=max(ntx, 1), distinct_nontrivial=2, rule="replay",
                            samples=[obj["case"]["label"]], states=1, transitions=1,
                            traces_validated_against_impl=1)
    finally:
        shutil.rmtree(d, ignore_errors=True)
    return rep.finish()
