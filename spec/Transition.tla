----------------------------- MODULE Transition -----------------------------
(* One transition of pkg/machine as a pure function: newTransition            *)
(* (transition.go:76-185) + emitEvents (transition.go:676-866) + the clock    *)
(* mutation setActiveStates (machine.go:1884-1947).                           *)
(*                                                                            *)
(* Inputs                                                                     *)
(*   cfg  : [transitive, toposort, ...]  code variants (see Resolver / Fix)   *)
(*   sch, idx, topo : schema, state index order, Require topology            *)
(*   hs   : [on |-> BOOLEAN, binds |-> Seq of [neg, fin : sets of names]]    *)
(*          `on` = handlerLoopRunning (some binding was bound at least once)  *)
(*   st   : [active |-> Seq, clock |-> [state -> Nat]]                        *)
(*   mut  : [type, called, auto, check]                                       *)
(*   veto : set of <<binding, handlerName>> whose negotiation handler         *)
(*          returns false whenever it is invoked                              *)
(* Handler names are tuples so that no string parsing is needed:              *)
(*   <<"exit",s>> <<"enter",s>> <<"self",s>> <<"ss",a,b>> <<"anyenter">>      *)
(*   <<"end",s>> <<"state",s>> <<"anystate">>                                 *)
EXTENDS Resolver

StatesToSet(mtype, called, active) ==
  CASE mtype = "remove" -> SDiff(active, called)
    [] mtype = "add"    -> called \o active
    [] mtype = "set"    -> called

IsActiveTick(t) == t % 2 = 1

(* setActiveStates / the TimeAfter prediction of newTransition: the tick      *)
(* rules.  `target` is walked as a sequence (duplicates tick twice).          *)
ApplyTicks(sch, clock, prev, called, target) ==
  LET RECURSIVE T(_, _)
      T(c, i) ==
        IF i > Len(target) THEN c
        ELSE LET n == target[i]
             IN IF ~SHas(prev, n) THEN T([c EXCEPT ![n] = @ + 1], i + 1)
                ELSE IF SHas(called, n) /\ sch[n].multi
                     THEN T([c EXCEPT ![n] = @ + 2], i + 1)
                     ELSE T(c, i + 1)
      removed == SDiff(prev, target)
      RECURSIVE R(_, _)
      R(c, i) == IF i > Len(removed) THEN c
                 ELSE R([c EXCEPT ![removed[i]] = @ + 1], i + 1)
  IN R(T(clock, 1), 1)

TimeOf(idx, clock) == [i \in 1..Len(idx) |-> clock[idx[i]]]

IsHealthMut(mut) ==
  /\ mut.type = "add" /\ Len(mut.called) = 1
  /\ mut.called[1] \in {"Healthcheck", "Heartbeat"}

(* processHandlers (machine.go:2333-2480) without faults: every binding that  *)
(* owns the handler is called in binding order; a negotiation handler that    *)
(* returns false stops the walk.                                              *)
CallH(hs, veto, name, isFinal) ==
  LET RECURSIVE Go(_, _)
      Go(b, log) ==
        IF b > Len(hs.binds) THEN [res |-> "executed", log |-> log]
        ELSE LET has == IF isFinal THEN name \in hs.binds[b].fin
                                   ELSE name \in hs.binds[b].neg
             IN IF ~has THEN Go(b + 1, log)
                ELSE IF ~isFinal /\ <<b, name>> \in veto
                     THEN [res |-> "canceled", log |-> Append(log, <<b, name>>)]
                     ELSE Go(b + 1, Append(log, <<b, name>>))
  IN Go(1, <<>>)

(* acc = [res, tgt, log, crash]                                               *)

RunTx(cfg, sch, idx, topo, hs, st, mut, veto) ==
  LET active  == st.active
      clock   == st.clock
      called  == mut.called
      isRem   == mut.type = "remove"
      Tgt(ts) == TargetStates(cfg, sch, topo, ts, active, isRem, called)
      target0 == Tgt(StatesToSet(mut.type, called, active))
      tBefore == TimeOf(idx, clock)
      tPred   == IF mut.check THEN tBefore
                 ELSE TimeOf(idx, ApplyTicks(sch, clock, active, called, target0))
      \* ---- setupAccepted (transition.go:868-910)
      notAcc   == SDiff(called, target0)
      anyMulti == \E i \in 1..Len(called) : sch[called[i]].multi
      accepted0 ==
        IF isRem THEN TRUE
        ELSE IF mut.auto THEN Len(notAcc) < Len(called)
        ELSE IF notAcc = <<>> THEN TRUE
        ELSE mut.check /\ anyMulti
      \* ---- setupExitEnter (transition.go:465-486)
      ExitsOf(tg)  == SortStates(cfg, sch, topo, SDiff(active, tg))
      EntersOf(tg) == SelectSeq(tg,
                        LAMBDA s : ~SHas(active, s) \/ (sch[s].multi /\ SHas(called, s)))
      exits0  == IF accepted0 THEN ExitsOf(target0) ELSE <<>>
      enters0 == IF accepted0 THEN EntersOf(target0) ELSE <<>>
      partial(s) == mut.auto /\ sch[s].auto
      \* ---- emitExitEvents (transition.go:548-571)
      RECURSIVE ExitPh(_, _)
      ExitPh(i, acc) ==
        IF i > Len(exits0) \/ acc.res = "canceled" \/ acc.crash THEN acc
        ELSE LET s == exits0[i]
                 r == CallH(hs, veto, <<"exit", s>>, FALSE)
                 a1 == [acc EXCEPT !.log = @ \o r.log]
             IN IF r.res = "canceled"
                THEN IF partial(s) /\ ~cfg.exitfix
                     \* pinned code: idx := slices.Index(targetStates, fromState)
                     \* = -1 (an exiting state is never in the target) and
                     \* slices.Delete(.., -1, 0) panics on the caller goroutine.
                     \* repaired code (fix: C07): an Exit veto cancels.
                     THEN [a1 EXCEPT !.crash = TRUE]
                     ELSE [a1 EXCEPT !.res = "canceled"]
                ELSE ExitPh(i + 1, a1)
      \* ---- emitEnterEvents (transition.go:524-546)
      RECURSIVE EnterPh(_, _)
      EnterPh(i, acc) ==
        IF i > Len(enters0) \/ acc.res = "canceled" \/ acc.crash THEN acc
        ELSE LET s == enters0[i]
                 r == CallH(hs, veto, <<"enter", s>>, FALSE)
                 a1 == [acc EXCEPT !.log = @ \o r.log]
             IN IF r.res = "canceled"
                THEN IF partial(s)
                     THEN EnterPh(i + 1, [a1 EXCEPT !.tgt = SWithout(@, s)])
                     ELSE [a1 EXCEPT !.res = "canceled"]
                ELSE EnterPh(i + 1, a1)
      \* ---- emitSelfEvents (transition.go:488-522).  Pinned code: the Go loop
      \* ranges over the slice header taken before the loop while slices.Delete
      \* shifts the shared backing array left and zeroes the tail: after a
      \* partial-acceptance delete the next element is skipped.  `arr` is the
      \* backing array (fixed length), `n` the logical length of the target.
      \* The function returns the result of the LAST handler call - a rejected
      \* Auto state whose self handler happens to be called last cancels the
      \* whole auto transition.  Repaired (cfg.selffix, fix: C07): the loop
      \* walks a copy of the target and a partial rejection is not a Cancel.
      SelfPhFixed(acc) ==
        LET L == Len(acc.tgt)
            RECURSIVE Go(_, _)
            Go(p, a) ==
              IF p > L THEN a
              ELSE LET s == acc.tgt[p]
                   IN IF ~SHas(active, s) THEN Go(p + 1, a)
                      ELSE LET r == CallH(hs, veto, <<"self", s>>, FALSE)
                               a1 == [a EXCEPT !.log = @ \o r.log]
                           IN IF r.res = "canceled"
                              THEN IF partial(s)
                                   THEN Go(p + 1, [a1 EXCEPT !.tgt = SWithout(@, s)])
                                   ELSE [a1 EXCEPT !.res = "canceled"]
                              ELSE Go(p + 1, a1)
        IN Go(1, [acc EXCEPT !.res = "executed"])
      SelfPh(acc) ==
        IF cfg.selffix THEN SelfPhFixed(acc) ELSE
        LET L == Len(acc.tgt)
            RECURSIVE Go(_, _, _, _, _)
            Go(p, arr, n, a, last) ==
              IF p > L THEN [a EXCEPT !.tgt = SubSeq(arr, 1, n), !.res = last]
              ELSE LET s == arr[p]
                   IN IF s = "" \/ ~SHas(active, s) THEN Go(p + 1, arr, n, a, last)
                      ELSE LET r == CallH(hs, veto, <<"self", s>>, FALSE)
                               a1 == [a EXCEPT !.log = @ \o r.log]
                           IN IF r.res = "canceled"
                              THEN IF partial(s)
                                   THEN LET k == SIndex(SubSeq(arr, 1, n), s)
                                            arr2 == SubSeq(arr, 1, k - 1)
                                                    \o SubSeq(arr, k + 1, n)
                                                    \o <<"">> \o SubSeq(arr, n + 1, L)
                                        IN Go(p + 1, arr2, n - 1, a1, "canceled")
                                   ELSE [a1 EXCEPT !.tgt = SubSeq(arr, 1, n),
                                                   !.res = "canceled"]
                              ELSE Go(p + 1, arr, n, a1, "executed")
        IN Go(1, acc.tgt, L, acc, "executed")
      \* ---- emitStateStateEvents (transition.go:622-674)
      SSPh(acc) ==
        LET after == acc.tgt
            RECURSIVE Go(_, _, _, _)
            Go(i, ii, newAfter, a) ==
              IF i > Len(active) THEN [a EXCEPT !.tgt = newAfter]
              ELSE IF ii > Len(after) THEN Go(i + 1, 1, newAfter, a)
              ELSE IF active[i] = after[ii] THEN Go(i, ii + 1, newAfter, a)
              ELSE LET r == CallH(hs, veto, <<"ss", active[i], after[ii]>>, FALSE)
                       a1 == [a EXCEPT !.log = @ \o r.log]
                   IN IF r.res # "canceled" THEN Go(i, ii + 1, newAfter, a1)
                      ELSE IF partial(after[ii])
                           THEN Go(i, ii + 1, SWithout(newAfter, after[ii]), a1)
                           ELSE [a1 EXCEPT !.tgt = newAfter, !.res = "canceled"]
        IN Go(1, 1, after, acc)
      \* ---- negotiation phase of emitEvents (transition.go:694-728)
      acc0 == [res |-> IF accepted0 THEN "executed" ELSE "canceled",
               tgt |-> target0, log |-> <<>>, crash |-> FALSE]
      neg ==
        IF ~hs.on THEN acc0
        ELSE LET a1 == IF acc0.res # "canceled" THEN ExitPh(1, acc0) ELSE acc0
                 a2 == IF a1.res # "canceled" /\ ~a1.crash THEN EnterPh(1, a1) ELSE a1
                 a3 == IF a2.res # "canceled" /\ ~a2.crash /\ ~isRem THEN SelfPh(a2) ELSE a2
                 a4 == IF a3.res # "canceled" /\ ~a3.crash THEN SSPh(a3) ELSE a3
                 a5 == IF mut.auto /\ a4.tgt = <<>> THEN [a4 EXCEPT !.res = "canceled"] ELSE a4
                 r6 == CallH(hs, veto, <<"anyenter">>, FALSE)
             IN IF a5.res # "canceled" /\ ~a5.crash
                THEN [a5 EXCEPT !.log = @ \o r6.log, !.res = r6.res]
                ELSE a5
      \* ---- auto re-resolution (transition.go:736-745)
      rejected   == SDiff(called, neg.tgt)
      calledOk   == SDiff(called, rejected)
      target1    == IF ~mut.check /\ mut.auto
                    THEN Tgt(StatesToSet("add", calledOk, active))
                    ELSE neg.tgt
      reExit     == ~mut.check /\ mut.auto
      exits1     == IF reExit THEN ExitsOf(target1) ELSE exits0
      enters1    == IF reExit THEN EntersOf(target1) ELSE enters0
      apply      == ~mut.check /\ neg.res # "canceled" /\ ~neg.crash
      \* ---- setActiveStates + finals (transition.go:748-796)
      clock1     == IF apply THEN ApplyTicks(sch, clock, active, called, target1) ELSE clock
      active1    == IF apply THEN target1 ELSE active
      finals     == exits1 \o enters1
      finLog ==
        IF apply /\ hs.on
        THEN SFlatten([i \in 1..Len(finals) |->
               CallH(hs, veto,
                     IF SHas(enters1, finals[i]) THEN <<"state", finals[i]>>
                                                 ELSE <<"end", finals[i]>>,
                     TRUE).log])
        ELSE <<>>
      anyLog == IF apply /\ hs.on THEN CallH(hs, veto, <<"anystate">>, TRUE).log ELSE <<>>
      changed    == clock1 # clock
      accepted   == neg.res # "canceled" /\ ~neg.crash
      autoWanted == apply /\ changed /\ ~mut.auto /\ ~IsHealthMut(mut)
      autoSet    == IF autoWanted THEN AutoCandidates(sch, idx, active1) ELSE {}
      result ==
        IF neg.res = "canceled" THEN "canceled"
        ELSE IF mut.check THEN neg.res
        ELSE IF isRem THEN (IF SNone(active1, called) THEN "executed" ELSE "canceled")
        ELSE IF mut.auto THEN (IF Len(target1) > Len(active) THEN "executed" ELSE "canceled")
        ELSE (IF SEvery(active1, target1) THEN "executed" ELSE "canceled")
  IN [active   |-> active1,
      clock    |-> clock1,
      accepted |-> accepted,
      result   |-> result,
      crash    |-> neg.crash,
      target   |-> target1,
      target0  |-> target0,
      tBefore  |-> tBefore,
      tPred    |-> tPred,
      tAfter   |-> TimeOf(idx, clock1),
      exits    |-> exits1,
      enters   |-> enters1,
      hlog     |-> neg.log \o finLog \o anyLog,
      negLen   |-> Len(neg.log),
      applied  |-> apply,
      changed  |-> changed,
      autoSet  |-> autoSet]

=============================================================================
