// Package schemas implements the C19 engine: static discovery of the exported
// state schemas of the module under test, a generated dump program that
// evaluates them in the CURRENT tree, and the replayer that executes, on a
// real am.Machine, every Add1/Remove1 edge TLC explored.
package schemas

import (
	"go/ast"
	"go/parser"
	"go/token"
	"os"
	"path/filepath"
	"sort"
	"strings"
)

// Candidate is one exported package-level schema variable found by the scan.
type Candidate struct {
	// import path of the package, "" when the package cannot be imported
	Import string `json:"import"`
	// directory relative to the repo root
	Dir     string `json:"dir"`
	File    string `json:"file"`
	Line    int    `json:"line"`
	Package string `json:"package"`
	// name of the schema variable
	Var string `json:"var"`
	// how the initialiser looks: "literal", "merge", "typed", "call"
	Kind string `json:"kind"`
	// exported variable holding the typed states struct ("" when none found)
	States string `json:"states"`
	// exported variable holding the typed groups struct ("" when none found)
	Groups string `json:"groups"`
	// why the variable cannot be evaluated by the dump program ("" = it can)
	Skip string `json:"skip,omitempty"`
}

const modulePath = "github.com/pancsta/asyncmachine-go"

type pkgVars struct {
	dir, name string
	// package-level var name -> initialiser (nil when none)
	inits map[string]ast.Expr
	types map[string]ast.Expr
	pos   map[string]token.Position
	// explicit imports: local name -> path
	hasTestOnly bool
}

func isSchemaType(e ast.Expr) bool {
	switch t := e.(type) {
	case *ast.Ident:
		return t.Name == "Schema"
	case *ast.SelectorExpr:
		return t.Sel.Name == "Schema"
	}
	return false
}

func callName(e ast.Expr) string {
	c, ok := e.(*ast.CallExpr)
	if !ok {
		return ""
	}
	switch f := c.Fun.(type) {
	case *ast.Ident:
		return f.Name
	case *ast.SelectorExpr:
		return f.Sel.Name
	case *ast.IndexExpr: // generic instantiation am.NewStates[T](...)
		switch g := f.X.(type) {
		case *ast.Ident:
			return g.Name
		case *ast.SelectorExpr:
			return g.Sel.Name
		}
	}
	return ""
}

// schemaKind classifies an initialiser; "" = not a schema.
func schemaKind(typ, init ast.Expr) string {
	if init != nil {
		if cl, ok := init.(*ast.CompositeLit); ok && cl.Type != nil && isSchemaType(cl.Type) {
			return "literal"
		}
		switch callName(init) {
		case "SchemaMerge", "Merge":
			return "merge"
		}
	}
	if typ != nil && isSchemaType(typ) {
		return "typed"
	}
	return ""
}

// resolve follows `A = b` identifier aliases inside a package.
func (p *pkgVars) resolve(name string) (string, ast.Expr) {
	for i := 0; i < 8; i++ {
		e := p.inits[name]
		id, ok := e.(*ast.Ident)
		if !ok {
			return name, e
		}
		if _, ok := p.inits[id.Name]; !ok {
			return name, e
		}
		name = id.Name
	}
	return name, p.inits[name]
}

func (p *pkgVars) exportedOf(fn string) []string {
	var out []string
	for n := range p.inits {
		if !ast.IsExported(n) {
			continue
		}
		_, e := p.resolve(n)
		if callName(e) == fn {
			out = append(out, n)
		}
	}
	sort.Strings(out)
	return out
}

// pick the companion variable of `schemaVar`: same stem + suffix
// (FooSchema -> FooStates / FooGroups); a package with a single schema and a
// single companion pairs them whatever the names.
func companion(schemaVar, suffix string, have []string, nSchemas int) string {
	stem := strings.TrimSuffix(strings.TrimSuffix(schemaVar, "Schema"), "Struct")
	for _, h := range have {
		if h == stem+suffix {
			return h
		}
	}
	if len(have) == 1 && nSchemas == 1 {
		return have[0]
	}
	return ""
}

// the older convention: `var States = am.Schema{...}` + `var Names = S{...}`
func (p *pkgVars) namesList(schemaVar string) string {
	if !strings.HasPrefix(schemaVar, "States") {
		return ""
	}
	n := "Names" + strings.TrimPrefix(schemaVar, "States")
	e, ok := p.inits[n]
	if !ok || !ast.IsExported(n) {
		return ""
	}
	if cl, ok := e.(*ast.CompositeLit); ok && cl.Type != nil {
		switch t := cl.Type.(type) {
		case *ast.Ident:
			if t.Name == "S" {
				return n
			}
		case *ast.SelectorExpr:
			if t.Sel.Name == "S" {
				return n
			}
		}
	}
	return ""
}

// Discover scans every non-test Go file below root.
func Discover(root string) ([]Candidate, error) {
	pkgs := map[string]*pkgVars{}
	fset := token.NewFileSet()
	nested := map[string]bool{} // directories of nested modules
	err := filepath.Walk(root, func(path string, info os.FileInfo, err error) error {
		if err != nil {
			return nil
		}
		if info.IsDir() {
			b := info.Name()
			if path != root && (strings.HasPrefix(b, ".") || b == "vendor" || b == "testdata" || b == "node_modules") {
				return filepath.SkipDir
			}
			if path != root {
				if _, e := os.Stat(filepath.Join(path, "go.mod")); e == nil {
					nested[path] = true
				}
			}
			return nil
		}
		if !strings.HasSuffix(path, ".go") || strings.HasSuffix(path, "_test.go") {
			return nil
		}
		f, perr := parser.ParseFile(fset, path, nil, parser.SkipObjectResolution)
		if perr != nil || f == nil {
			return nil
		}
		dir := filepath.Dir(path)
		key := dir + "\x00" + f.Name.Name
		p := pkgs[key]
		if p == nil {
			p = &pkgVars{dir: dir, name: f.Name.Name, inits: map[string]ast.Expr{},
				types: map[string]ast.Expr{}, pos: map[string]token.Position{}}
			pkgs[key] = p
		}
		for _, d := range f.Decls {
			gd, ok := d.(*ast.GenDecl)
			if !ok || gd.Tok != token.VAR {
				continue
			}
			for _, sp := range gd.Specs {
				vs := sp.(*ast.ValueSpec)
				for i, n := range vs.Names {
					var init ast.Expr
					if len(vs.Values) == len(vs.Names) {
						init = vs.Values[i]
					}
					p.inits[n.Name] = init
					p.types[n.Name] = vs.Type
					p.pos[n.Name] = fset.Position(n.Pos())
				}
			}
		}
		return nil
	})
	if err != nil {
		return nil, err
	}
	var out []Candidate
	for _, p := range pkgs {
		states := p.exportedOf("NewStates")
		groups := p.exportedOf("NewStateGroups")
		nSchemas := 0
		for n := range p.inits {
			if ast.IsExported(n) && schemaKind(p.types[n], p.inits[n]) != "" {
				nSchemas++
			}
		}
		for n := range p.inits {
			if !ast.IsExported(n) {
				continue
			}
			kind := schemaKind(p.types[n], p.inits[n])
			if kind == "" {
				continue
			}
			rel, _ := filepath.Rel(root, p.dir)
			rel = filepath.ToSlash(rel)
			c := Candidate{Dir: rel, File: filepath.ToSlash(strings.TrimPrefix(p.pos[n].Filename, root+"/")),
				Line: p.pos[n].Line, Package: p.name, Var: n, Kind: kind,
				States: companion(n, "States", states, nSchemas),
				Groups: companion(n, "Groups", groups, nSchemas)}
			if c.States == "" {
				c.States = p.namesList(n)
			}
			switch {
			case p.name == "main":
				c.Skip = "package main cannot be imported"
			case rel == "internal" || strings.HasPrefix(rel, "internal/") || strings.Contains(rel, "/internal/") || strings.HasSuffix(rel, "/internal"):
				c.Skip = "internal package cannot be imported from the harness module"
			default:
				for nd := range nested {
					if p.dir == nd || strings.HasPrefix(p.dir, nd+"/") {
						c.Skip = "nested Go module (own go.mod), not part of the module under test"
					}
				}
			}
			if c.Skip == "" {
				if rel == "." {
					c.Import = modulePath
				} else {
					c.Import = modulePath + "/" + rel
				}
			}
			out = append(out, c)
		}
	}
	sort.Slice(out, func(i, j int) bool {
		if out[i].Dir != out[j].Dir {
			return out[i].Dir < out[j].Dir
		}
		return out[i].Var < out[j].Var
	})
	return out, nil
}
