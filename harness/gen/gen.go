// Package gen generates schemas, handler bindings and call histories.
// Everything is derived from a seed (VERIF_SEED) or from an index into an
// enumerated space, so TLC and the Go side can talk about the same case.
package gen

import (
	"fmt"
	"math/rand"
	"sort"

	am "github.com/pancsta/asyncmachine-go/pkg/machine"

	"verifharness/rec"
)

type Call struct {
	Ev     string          `json:"ev"`
	Type   string          `json:"type"`
	Called am.S            `json:"called"`
	Check  bool            `json:"check"`
	Via    string          `json:"via,omitempty"`
	Veto   [][]any         `json:"veto"`
	Nest   []NestAt        `json:"nest"`
	Panic  [][]any         `json:"panic,omitempty"`
	Stall  [][]any         `json:"stall,omitempty"`
	// Dead (a subset of Stall): the handler does not return within
	// HandlerDeadline either; it is released by a later "release" event
	Dead [][]any `json:"dead,omitempty"`
	Probe  bool            `json:"probe,omitempty"`
	// Follows: the same mutation as the preceding check call, issued for real;
	// Predicted is that check's answer (filled in by the driver)
	Follows   bool   `json:"follows,omitempty"`
	Predicted string `json:"predicted,omitempty"`
	// Ev == "env": the environment switches the machine's backoff on / off
	// (Machine.LastHandlerDeadline), no mutation is issued
	Backoff bool `json:"backoff"`
}

type NestAt struct {
	At     []any  `json:"at"`
	Type   string `json:"type"`
	Called am.S   `json:"called"`
}

type Case struct {
	Names  am.S // user states, index order (Exception appended by the driver)
	Schema am.Schema
	On     bool
	Binds  []rec.Binding
	Calls  []Call
	Label  string
}

func Index(c *Case) am.S { return append(append(am.S{}, c.Names...), am.StateException) }

// subsetSeq returns a random ordered subset (len <= maxLen) of pool.
func subsetSeq(r *rand.Rand, pool am.S, maxLen int, p float64) am.S {
	var out am.S
	perm := r.Perm(len(pool))
	for _, i := range perm {
		if len(out) >= maxLen {
			break
		}
		if r.Float64() < p {
			out = append(out, pool[i])
		}
	}
	return out
}

func others(names am.S, n string) am.S {
	var o am.S
	for _, x := range names {
		if x != n {
			o = append(o, x)
		}
	}
	return o
}

// S2Schema decodes index i (0 <= i < S2Count(after)) into a schema over A,B
// with relation lists of length <= 1 and Auto/Multi flags: the space of
// MCMachine with Names=<<"A","B">>, MaxRel=1, UseFlags=TRUE.
func S2Count(after bool) int {
	if after {
		return 1 << 12
	}
	return 1 << 10
}

func S2Schema(i int, after bool) (am.S, am.Schema) {
	names := am.S{"A", "B"}
	sch := am.Schema{}
	for k, n := range names {
		o := names[1-k]
		bits := i
		st := am.State{}
		if bits&1 != 0 {
			st.Auto = true
		}
		if bits&2 != 0 {
			st.Multi = true
		}
		if bits&4 != 0 {
			st.Require = am.S{o}
		}
		if bits&8 != 0 {
			st.Add = am.S{o}
		}
		if bits&16 != 0 {
			st.Remove = am.S{o}
		}
		if after {
			if bits&32 != 0 {
				st.After = am.S{o}
			}
			i >>= 6
		} else {
			i >>= 5
		}
		sch[n] = st
	}
	return names, sch
}

// HasRequireRemoveConflict mirrors Schema.Parse's error condition after its
// own normalisation (Remove entries that are also in Add are dropped first).
func HasRequireRemoveConflict(sch am.Schema) bool {
	for _, st := range sch {
		for _, rq := range st.Require {
			inRem := false
			for _, x := range st.Remove {
				if x == rq {
					inRem = true
				}
			}
			inAdd := false
			for _, x := range st.Add {
				if x == rq {
					inAdd = true
				}
			}
			if inRem && !inAdd {
				return true
			}
		}
	}
	return false
}

// RandSchema: n user states, arbitrary relation graphs (cycles allowed),
// density d, optional Add chains.
func RandSchema(r *rand.Rand, n int, d float64, flags bool, after bool) (am.S, am.Schema) {
	names := am.S{}
	for i := 0; i < n; i++ {
		names = append(names, string(rune('A'+i)))
	}
	for tries := 0; ; tries++ {
		sch := am.Schema{}
		for _, nm := range names {
			o := others(names, nm)
			st := am.State{}
			if flags {
				st.Auto = r.Float64() < 0.25
				st.Multi = r.Float64() < 0.2
			}
			st.Require = subsetSeq(r, o, 2, d)
			st.Add = subsetSeq(r, o, 3, d)
			st.Remove = subsetSeq(r, o, 3, d)
			if after {
				st.After = subsetSeq(r, o, 3, d)
			}
			sch[nm] = st
		}
		if !HasRequireRemoveConflict(sch) {
			return names, sch
		}
	}
}

// DagSchema: n states with After / Require demands that only point "backwards"
// in a hidden random order, so the combined demand graph is acyclic and every
// handler-order obligation of C05 is claimed. Names are shuffled so that the
// index order says nothing about the demanded order.
func DagSchema(r *rand.Rand, n int, p float64) (am.S, am.Schema) {
	names := am.S{}
	for i := 0; i < n; i++ {
		names = append(names, string(rune('A'+i)))
	}
	order := r.Perm(n) // order[k] = index of the k-th state of the hidden order
	sch := am.Schema{}
	for k := 0; k < n; k++ {
		st := am.State{}
		for j := 0; j < k; j++ {
			x := r.Float64()
			if x < p {
				st.After = append(st.After, names[order[j]])
			} else if x < p*1.6 {
				st.Require = append(st.Require, names[order[j]])
			}
		}
		if r.Float64() < 0.15 {
			st.Multi = true
		}
		sch[names[order[k]]] = st
	}
	return names, sch
}

// AutoSchema: k Auto states (sparse relations among them) plus two plain
// trigger states T and U; AutoCalls drives the partial-acceptance paths: every
// trigger call carries 1-3 vetoes on Enter / self / state-state handlers of
// the auto states.
func AutoSchema(r *rand.Rand) (am.S, am.Schema) {
	k := 2 + r.Intn(3)
	names := am.S{}
	for i := 0; i < k; i++ {
		names = append(names, string(rune('A'+i)))
	}
	sch := am.Schema{}
	for _, n := range names {
		st := am.State{Auto: true}
		o := others(names, n)
		if r.Float64() < 0.25 {
			st.Require = subsetSeq(r, o, 1, 0.5)
		}
		if r.Float64() < 0.2 {
			st.Remove = subsetSeq(r, o, 1, 0.5)
		}
		if r.Float64() < 0.2 {
			st.Add = subsetSeq(r, o, 1, 0.5)
		}
		if r.Float64() < 0.15 {
			st.Multi = true
		}
		sch[n] = st
	}
	names = append(names, "T", "U")
	// a Multi trigger: calling it again moves its clock (+2) while the active
	// set stays the same - still a state change that is owed an auto mutation
	sch["T"] = am.State{Multi: r.Intn(2) == 0}
	sch["U"] = am.State{}
	if HasRequireRemoveConflict(sch) {
		return AutoSchema(r)
	}
	return names, sch
}

func AutoCalls(r *rand.Rand, c *Case, n int) []Call {
	var autos am.S
	for _, nm := range c.Names {
		if c.Schema[nm].Auto {
			autos = append(autos, nm)
		}
	}
	var calls []Call
	for i := 0; i < n; i++ {
		call := Call{Ev: "call", Veto: [][]any{}, Nest: []NestAt{}}
		switch r.Intn(4) {
		case 0:
			call.Type, call.Called = "add", am.S{"T"}
		case 1:
			call.Type, call.Called = "add", am.S{"U", "T"}
		case 2:
			call.Type, call.Called = "remove", append(am.S{"T", "U"}, autos...)
		default:
			call.Type, call.Called = "set", am.S{[]string{"T", "U"}[r.Intn(2)]}
		}
		if c.On {
			for j := r.Intn(4); j > 0; j-- {
				a := autos[r.Intn(len(autos))]
				var h rec.HName
				switch r.Intn(5) {
				case 0, 1:
					h = rec.HName{"enter", a}
				case 2:
					h = rec.HName{"ss", []string{"T", "U"}[r.Intn(2)], a}
				case 3:
					h = rec.HName{"ss", autos[r.Intn(len(autos))], a}
				default:
					h = rec.HName{"self", a}
				}
				if len(h) == 3 && h[1] == h[2] {
					continue
				}
				call.Veto = append(call.Veto, []any{1 + r.Intn(len(c.Binds)), h})
			}
		}
		calls = append(calls, call)
	}
	return calls
}

// ChainSchema: an Add chain A->B->C->... of the given depth plus noise.
func ChainSchema(r *rand.Rand, depth int) (am.S, am.Schema) {
	names := am.S{}
	for i := 0; i <= depth; i++ {
		names = append(names, string(rune('A'+i)))
	}
	sch := am.Schema{}
	for i, nm := range names {
		st := am.State{}
		if i < depth {
			st.Add = am.S{names[i+1]}
		}
		sch[nm] = st
	}
	return names, sch
}

func FullBinding(index am.S) rec.Binding {
	neg, fin := rec.AllHandlerNames(index)
	return rec.Binding{Neg: neg, Fin: fin}
}

func RandBinding(r *rand.Rand, index am.S, p float64) rec.Binding {
	neg, fin := rec.AllHandlerNames(index)
	b := rec.Binding{Neg: []rec.HName{}, Fin: []rec.HName{}}
	for _, h := range neg {
		if r.Float64() < p {
			b.Neg = append(b.Neg, h)
		}
	}
	for _, h := range fin {
		if r.Float64() < p {
			b.Fin = append(b.Fin, h)
		}
	}
	return b
}

// PickForm chooses how a binding reaches the machine: with probability p one of
// the HandlersBind(&struct) forms (the method forms only where the static types
// exist: a full binding over A, B), otherwise the handler maps.
func PickForm(r *rand.Rand, index am.S, bd rec.Binding, p float64) string {
	if r.Float64() >= p {
		return rec.FormMap
	}
	forms := append([]string{}, rec.DynForms...)
	if rec.IsFullAB(index, bd) {
		// twice: half of the struct-bound full bindings over A, B use methods
		forms = append(forms, rec.StaticForms...)
		forms = append(forms, rec.StaticForms...)
	}
	return forms[r.Intn(len(forms))]
}

func pickCalled(r *rand.Rand, names am.S, withExc bool) am.S {
	pool := append(am.S{}, names...)
	if withExc && r.Float64() < 0.08 {
		pool = append(pool, am.StateException)
	}
	for {
		c := subsetSeq(r, pool, len(pool), 0.45)
		if len(c) > 0 {
			return c
		}
	}
}

// RandCalls generates a call history. vetoP is the probability that a call
// carries vetoing handlers.
func RandCalls(r *rand.Rand, c *Case, n int, vetoP float64, maxVeto int) []Call {
	index := Index(c)
	var calls []Call
	for i := 0; i < n; i++ {
		call := Call{Ev: "call", Veto: [][]any{}, Nest: []NestAt{}}
		x := r.Float64()
		switch {
		case x < 0.40:
			call.Type = "add"
		case x < 0.65:
			call.Type = "remove"
		case x < 0.80:
			call.Type = "set"
		case x < 0.90:
			call.Type = "add"
			call.Check = true
		default:
			call.Type = "remove"
			call.Check = true
		}
		call.Called = pickCalled(r, c.Names, !call.Check)
		if c.On && r.Float64() < vetoP {
			k := 1 + r.Intn(maxVeto)
			for j := 0; j < k; j++ {
				b := r.Intn(len(c.Binds))
				bd := c.Binds[b]
				if len(bd.Neg) == 0 {
					continue
				}
				// bias towards handlers of the called states
				var h rec.HName
				for t := 0; t < 4; t++ {
					h = bd.Neg[r.Intn(len(bd.Neg))]
					rel := false
					for _, p := range h[1:] {
						for _, cs := range index {
							if p == cs {
								rel = true
							}
						}
					}
					if rel || t == 3 {
						break
					}
				}
				call.Veto = append(call.Veto, []any{b + 1, h})
			}
		}
		// handlers that themselves mutate: a final handler of binding 1 issues
		// one or two more mutations (queued behind the running transition)
		if c.On && NestP > 0 && r.Float64() < NestP && len(c.Binds) > 0 && len(c.Binds[0].Fin) > 0 {
			k := 1 + r.Intn(2)
			if r.Intn(5) == 0 {
				// a burst: enough handler-issued mutations to reach the queue limit
				// of the driver's machines (seqdrv.QueueLimit = 4) and go beyond it
				k = 4 + r.Intn(4)
			}
			for j := 0; j < k; j++ {
				h := c.Binds[0].Fin[r.Intn(len(c.Binds[0].Fin))]
				ty := []string{"add", "add", "remove", "set"}[r.Intn(4)]
				call.Nest = append(call.Nest, NestAt{At: []any{1, h}, Type: ty,
					Called: pickCalled(r, c.Names, ty != "set")})
			}
		}
		calls = append(calls, call)
		if call.Check && r.Float64() < 0.6 {
			// CanAdd/CanRemove must answer what the same mutation returns next
			f := call
			f.Check = false
			f.Follows = true
			f.Nest = []NestAt{}
			calls = append(calls, f)
		}
	}
	if BackoffP > 0 && r.Float64() < BackoffP && len(calls) >= 2 {
		// a handler deadline was hit: the machine backs off for a stretch of the
		// history (never between a check call and the call that follows it up)
		var cut []int
		for i := 1; i < len(calls); i++ {
			if !calls[i].Follows {
				cut = append(cut, i)
			}
		}
		if len(cut) > 0 {
			from := cut[r.Intn(len(cut))]
			to := from + 1 + r.Intn(2)
			for to < len(calls) && calls[to].Follows {
				to++
			}
			if to > len(calls) {
				to = len(calls)
			}
			var out []Call
			out = append(out, calls[:from]...)
			out = append(out, Call{Ev: "env", Backoff: true, Called: am.S{}, Veto: [][]any{}, Nest: []NestAt{}})
			out = append(out, calls[from:to]...)
			out = append(out, Call{Ev: "env", Backoff: false, Called: am.S{}, Veto: [][]any{}, Nest: []NestAt{}})
			out = append(out, calls[to:]...)
			calls = out
		}
	}
	return calls
}

// BackoffP is the probability that a generated history contains a stretch
// during which the machine is backing off.
var BackoffP = 0.0

// NestP is the probability that a generated call carries handler-issued
// (nested) mutations.
var NestP = 0.0

func SortedNames(sch am.Schema) am.S {
	var n am.S
	for k := range sch {
		n = append(n, k)
	}
	sort.Strings(n)
	return n
}

// FaultCalls: every faulty call (one or two handlers that panic with a string,
// panic with an error value, or stall beyond HandlerTimeout) is followed by a
// fault-free probe call.
func FaultCalls(r *rand.Rand, c *Case, n int) []Call {
	var calls []Call
	base := RandCalls(r, c, n, 0, 1)
	for i := range base {
		call := base[i]
		call.Check = false
		nf := 1
		if r.Float64() < 0.25 {
			nf = 2
		}
		for j := 0; j < nf && len(c.Binds) > 0; j++ {
			b := r.Intn(len(c.Binds))
			bd := c.Binds[b]
			all := append(append([]rec.HName{}, bd.Neg...), bd.Fin...)
			if len(all) == 0 {
				continue
			}
			// bias towards handlers that mention a called state or Exception
			var h rec.HName
			for t := 0; t < 6; t++ {
				h = all[r.Intn(len(all))]
				rel := false
				for _, p := range h[1:] {
					for _, cs := range call.Called {
						if p == cs {
							rel = true
						}
					}
				}
				if rel || (t >= 3 && len(h) > 1 && h[1] == "Exception") || t == 5 {
					break
				}
			}
			dup := false
			for _, p := range call.Panic {
				if p[0].(int) == b+1 && p[1].(rec.HName).Key() == h.Key() {
					dup = true
				}
			}
			for _, p := range call.Stall {
				if p[0].(int) == b+1 && p[1].(rec.HName).Key() == h.Key() {
					dup = true
				}
			}
			if dup {
				continue
			}
			switch r.Intn(5) {
			case 0, 1:
				call.Panic = append(call.Panic, []any{b + 1, h, fmt.Sprintf("boom-%d-%d", i, j)})
			case 2:
				call.Panic = append(call.Panic, []any{b + 1, h, fmt.Sprintf("err:bang-%d-%d", i, j)})
			default:
				call.Stall = append(call.Stall, []any{b + 1, h})
			}
		}
		calls = append(calls, call)
		probe := RandCalls(r, c, 1, 0, 1)[0]
		probe.Check = false
		probe.Probe = true
		calls = append(calls, probe)
	}
	return calls
}
