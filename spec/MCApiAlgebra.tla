--------------------------- MODULE MCApiAlgebra ---------------------------
(* Bounded model of ApiAlgebra (design half of C20).                          *)
(*                                                                            *)
(* Part = "lists" | "time" | "queue" | "alg" (all three): one step from the initial state to      *)
(*   every (function, arguments) of the bounded input space -- 3 known names  *)
(*   + 1 unknown, lists <= MaxLen long with duplicates, 0..MaxVar variadic    *)
(*   lists (each <= MaxLenVar), queues <= MaxQueue with every Position; the   *)
(*   state holds the result of the CODE model (flag Fix) and the verdict of   *)
(*   the LAW on it.                                                           *)
(* Part = "machine": lifecycle (fresh / inhandler / midqueue / errored /      *)
(*   setschema / disposed) x getters x MutateReturned x wait/ask helper       *)
(*   scenarios x argument classes.                                            *)
(* Part = "async": the async helpers step by step (ApiAlgebra Part 3b): every *)
(*   entry point x every scenario (how / when the wait state is activated,    *)
(*   plain / Multi, direct / queued / disposed, vetoed, ctx kind) x every     *)
(*   interleaving of the helper's steps with the environment's; AsyncLaw is   *)
(*   judged when the helper returns or can never return.  AsyncOrder is the   *)
(*   order of the helper's first two steps ("bind-mutate" = the code).        *)
(* Invariants: Inv_NoPanic, Inv_Law, Inv_Copy, Inv_Helper, Inv_Total.         *)
(* With Fix = TRUE (repaired code) all hold; Predict (an ASSUME-time          *)
(* evaluation, Part = "predict") lists what breaks with the code as found.    *)
EXTENDS ApiAlgebra

CONSTANTS Fix, Part, MaxLen, MaxLenVar, MaxVar, MaxQueue, MaxList, Shared, AsyncOrder

ASSUME AsyncOrder \in AsyncOrders

VARIABLES call, verdict, m, held, phase

(* values for the CONSTANT Shared (getters that leak their internal value)    *)
NoShared == {}
SharedQueue == {"Queue"}

vars == <<call, verdict, m, held, phase>>

Alpha == {"A", "B", "C", "X"}
Known == <<"A", "B", "C">>
KnownX == <<"Exception", "A", "B", "C">>

SeqsUpTo(S, n) == UNION {[1..k -> S] : k \in 0..n}

AllTrue == [nopanic |-> TRUE, law |-> TRUE, copy |-> TRUE, helper |-> TRUE, total |-> TRUE]
None == [kind |-> "none"]

---------------------------------------------------------------------------
(* input spaces: sets of <<fn, a>>                                            *)
L == SeqsUpTo(Alpha, MaxLen)
LV == SeqsUpTo(Alpha, MaxLenVar)
VarLists == SeqsUpTo(LV, MaxVar)

(* ExListCall(P): P(fn, a) for SOME call of the list input space (the spaces   *)
(* are never materialised as sets: TLC would evaluate them eagerly)           *)
BinFns == {"S.Sub", "StatesDiff", "S.Shared", "StatesShared", "S.Equal", "StatesEqual",
           "S.EqualOrder", "S.Index", "StatesToIndex", "S.Delete1", "S.Add1"}
ExListCall(P(_, _)) ==
  \/ \E s \in L : P("S.Unique", <<s>>)
  \/ \E s \in L, n \in Alpha : P("S.Has", <<s, n>>)
  \/ \E fn \in BinFns, s \in L, t \in L : P(fn, <<s, t>>)
  \/ \E fn \in {"M.ParseStates", "M.Has", "M.Index"}, s \in L : P(fn, <<KnownX, s>>)
  \/ \E fn \in {"S.Delete", "S.Add", "SRem"}, s \in LV, ls \in VarLists : P(fn, <<s, ls>>)
  \/ \E ls \in VarLists : P("SAdd", <<ls>>)

T3 == [1..3 -> 0..2]
T2 == [1..2 -> 0..2]
T23 == T3 \cup T2
Idx == SeqsUpTo(0..2, 2)
IdxNeg == SeqsUpTo(-1..2, 2)
IdxLists == SeqsUpTo(SeqsUpTo(-1..2, 1), 2)
KnownLists == SeqsUpTo({"A", "B", "C"}, 2)
AnyLists == SeqsUpTo(Alpha, 2)

ExTimeCall(P(_, _)) ==
  \/ \E ix \in Idx : P("NewTime", <<Zeros(3), ix>>) \/ P("NewTimeIndex", <<Known, ix>>)
  \/ \E fn \in {"T.String", "T.NonZeroStates"}, t \in T3 : P(fn, <<t>>)
  \/ \E t \in T3 : P("T.Sum", <<t, TRUE, <<>>>>) \/ P("T.ActiveStates", <<t, TRUE, <<>>>>)
  \/ \E fn \in {"T.Sum", "T.ActiveStates"}, t \in T3, ix \in Idx : P(fn, <<t, FALSE, ix>>)
  \/ \E fn \in {"T.Increment", "T.Tick"}, t \in T3, i \in 0..2 : P(fn, <<t, i>>)
  \/ \E fn \in {"T.Is1", "T.Not1"}, t \in T3, i \in -1..2 : P(fn, <<t, i>>)
  \/ \E t \in T3, ix \in Idx : P("T.Filter", <<t, ix>>)
  \/ \E fn \in {"T.Is", "T.Not", "T.Any1"}, t \in T3, ix \in IdxNeg : P(fn, <<t, ix>>)
  \/ \E t \in T3, ixs \in IdxLists : P("T.Any", <<t, ixs>>)
  \/ \E t \in T3, u \in T23 : P("T.Add", <<t, u>>)
  \/ \E t \in T3, u \in T23 :
        (Len(u) = 3 => \A i \in 1..3 : u[i] <= t[i]) /\ P("T.DiffSince", <<t, u>>)
  \/ \E fn \in {"T.After", "T.Before", "T.Equal"}, t \in T3, b \in BOOLEAN, u \in T23 :
        P(fn, <<t, b, u>>)
  \/ \E fn \in {"TI.String", "TI.NonZeroStates"}, t \in T3 : P(fn, <<Known, t>>)
  \/ \E t \in T3 : P("TI.ActiveStates", <<Known, t, TRUE, <<>>>>)
  \/ \E t \in T3, st \in KnownLists : P("TI.ActiveStates", <<Known, t, FALSE, st>>)
  \/ \E t \in T3, i \in 0..2 : P("TI.StateName", <<Known, t, i>>)
  \/ \E fn \in {"TI.Sum", "TI.Filter"}, t \in T3, st \in KnownLists : P(fn, <<Known, t, st>>)
  \/ \E fn \in {"TI.Is", "TI.Not", "TI.Any", "TI.Any1"}, t \in T3, st \in AnyLists :
        P(fn, <<Known, t, st>>)
  \/ \E fn \in {"TI.Is1", "TI.Not1"}, t \in T3, n \in Alpha : P(fn, <<Known, t, n>>)

(* queues: mutations of a small alphabet; appended ones get ticks 2, 3, ...   *)
(* in order, a prepended check has tick 0                                     *)
QAlpha == {[type |-> "add", called |-> <<"A">>, check |-> FALSE, args |-> FALSE],
           [type |-> "add", called |-> <<"A", "B">>, check |-> FALSE, args |-> TRUE],
           [type |-> "remove", called |-> <<"A">>, check |-> FALSE, args |-> FALSE],
           [type |-> "set", called |-> <<"B">>, check |-> FALSE, args |-> FALSE],
           [type |-> "add", called |-> <<"A">>, check |-> TRUE, args |-> FALSE]}
WithTicks(q) ==
  [i \in 1..Len(q) |-> [type |-> q[i].type, called |-> q[i].called, check |-> q[i].check,
                        args |-> q[i].args, tick |-> IF q[i].check THEN 0 ELSE i + 1]]
Queues == {WithTicks(q) : q \in SeqsUpTo(QAlpha, MaxQueue)}
QStates == {<<>>, <<"A">>, <<"B">>, <<"A", "B">>, <<"B", "A">>, <<"X">>}
MutTypes == {"add", "remove", "set"}

ExQueueCall(P(_, _)) ==
  \/ \E q \in Queues, mt \in MutTypes, st \in QStates, woa \in BOOLEAN, strict \in BOOLEAN,
        mq \in {0, 3}, chk \in BOOLEAN, pos \in 0..2 :
        P("M.IsQueued", <<KnownX, q, mt, st, woa, strict, mq, chk, pos>>)
  \/ \E q \in Queues, thr \in 0..2, mt \in MutTypes, st \in QStates, woa \in BOOLEAN,
        strict \in BOOLEAN, mq \in {0, 3} :
        P("M.IsQueuedAbove", <<KnownX, q, thr, mt, st, woa, strict, mq>>)
  \/ \E fn \in {"M.WillBe", "M.WillBeRemoved"}, q \in Queues, st \in QStates, hp \in BOOLEAN,
        pos \in 0..2 : P(fn, <<KnownX, q, st, hp, pos>>)
  \/ \E fn \in {"M.WillBe1", "M.WillBeRemoved1"}, q \in Queues, n \in {"A", "B", "C"},
        hp \in BOOLEAN, pos \in 0..2 : P(fn, <<KnownX, q, n, hp, pos>>)
  \/ \E q \in Queues, st \in QStates : P("M.WillBeAny", <<KnownX, q, st>>)

ExCall(P(_, _)) ==
  CASE Part = "lists" -> ExListCall(P)
    [] Part = "time" -> ExTimeCall(P)
    [] Part = "queue" -> ExQueueCall(P)
    [] Part = "alg" -> ExListCall(P) \/ ExTimeCall(P) \/ ExQueueCall(P)
    [] OTHER -> FALSE

AlgVerdict(fn, a, c) ==
  [AllTrue EXCEPT !.nopanic = ~c.p,
                  !.law = c.p \/ LawOk(fn, a, c.r)]

DoAlg(fn, a) ==
  LET c == CodeRes(fn, Fix, a) IN
  /\ call' = [kind |-> "alg", fn |-> fn, a |-> a, res |-> c]
  /\ verdict' = AlgVerdict(fn, a, c)

AlgStep ==
  /\ call = None
  /\ ExCall(DoAlg)
  /\ UNCHANGED <<m, held, phase>>

---------------------------------------------------------------------------
(* machine part                                                               *)
(* the clock is a function of the history of `active`; the model keeps only   *)
(* a 1-bit "ticked" abstraction of it                                         *)
M0 == [active |-> {}, clock |-> 0, tags |-> <<>>, queue |-> <<>>, tracers |-> <<>>,
       schema |-> "v0"]

Apply(mm, type, st) ==
  LET act == IF type = "add" THEN mm.active \cup st ELSE mm.active \ st
  IN [mm EXCEPT !.active = act, !.clock = IF act # mm.active THEN 1 ELSE @]

Live == phase # "disposed"

StartTx == /\ Part = "machine" /\ phase \in {"fresh", "errored", "setschema"}
           /\ phase' = "inhandler"
           /\ UNCHANGED <<m, held>> /\ call' = [kind |-> "life"] /\ verdict' = AllTrue
QueueBehind == /\ Part = "machine" /\ phase = "inhandler"
               /\ phase' = "midqueue" /\ m' = [m EXCEPT !.queue = <<"mut">>]
               /\ UNCHANGED held /\ call' = [kind |-> "life"] /\ verdict' = AllTrue
EndTx == /\ Part = "machine" /\ phase \in {"inhandler", "midqueue"}
         /\ \E type \in {"add", "remove"}, st \in SUBSET {"A", "B"}, ok \in BOOLEAN :
              m' = [(IF ok THEN Apply(m, type, st) ELSE m) EXCEPT !.queue = <<>>]
         /\ phase' = "fresh"
         /\ UNCHANGED held /\ call' = [kind |-> "life"] /\ verdict' = AllTrue
Err == /\ Part = "machine" /\ phase = "fresh" /\ phase' = "errored"
       /\ UNCHANGED <<m, held>> /\ call' = [kind |-> "life"] /\ verdict' = AllTrue
SetSchema == /\ Part = "machine" /\ phase \in {"fresh", "errored"} /\ m.schema = "v0"
             /\ phase' = "setschema" /\ m' = [m EXCEPT !.schema = "v1"]
             /\ UNCHANGED held /\ call' = [kind |-> "life"] /\ verdict' = AllTrue
SetTagsTracers == /\ Part = "machine" /\ Live /\ m.tags = <<>>
                  /\ m' = [m EXCEPT !.tags = <<"t">>, !.tracers = <<"tr">>]
                  /\ UNCHANGED <<held, phase>> /\ call' = [kind |-> "life"] /\ verdict' = AllTrue
Dispose == /\ Part = "machine" /\ Live /\ phase' = "disposed"
           /\ m' = [m EXCEPT !.queue = <<>>]
           /\ UNCHANGED held /\ call' = [kind |-> "life"] /\ verdict' = AllTrue

Get(g) == /\ Part = "machine"
          /\ held' = [g |-> g, val |-> ViewOf(g, m)]
          /\ UNCHANGED <<m, phase>> /\ call' = [kind |-> "get", g |-> g] /\ verdict' = AllTrue

(* the caller scribbles over the value it was handed                          *)
MutateReturned(g) ==
  /\ Part = "machine" /\ held # None /\ held.g = g
  /\ LET m2 == IF g \in Shared THEN WriteThrough(g, m) ELSE m IN
     /\ m' = m2
     /\ verdict' = [AllTrue EXCEPT !.copy = (m2 = m)]
  /\ held' = [held EXCEPT !.val = Junk]
  /\ UNCHANGED phase /\ call' = [kind |-> "mutret", g |-> g]

HelperCall(fn, possible) ==
  /\ Part = "machine"
  /\ LET sc == [disposed |-> phase = "disposed", queued |-> phase \in {"inhandler", "midqueue"},
                possible |-> possible]
         ret == HelperCode(Fix, fn, sc)
     IN /\ call' = [kind |-> "helper", fn |-> fn, sc |-> sc, ret |-> ret]
        /\ verdict' = [AllTrue EXCEPT !.helper = HelperLaw(fn, sc, ret)]
  /\ UNCHANGED <<m, held, phase>>

(* the Sync helpers on every list of 1..MaxList members x (active before,     *)
(* vetoing handler) per member (ApiAlgebra Part 3a); the law is judged on the *)
(* activity the machine model leaves behind                                   *)
MemberLists == UNION {[1..k -> ListMember] : k \in 1..MaxList}
HelperListCall(fn, lst) ==
  /\ Part = "machine"
  /\ LET sc == [disposed |-> phase = "disposed", queued |-> phase \in {"inhandler", "midqueue"}]
         ret == ListCode(Fix, fn, sc, lst)
         after == ListAfter(fn = "AddSync", sc, lst)
     IN /\ call' = [kind |-> "helperlist", fn |-> fn, sc |-> sc, lst |-> lst, ret |-> ret]
        /\ verdict' = [AllTrue EXCEPT !.helper = ListLaw(fn, sc, after, ret)]
  /\ UNCHANGED <<m, held, phase>>

WaitCall(fn, chans, ctxDone) ==
  /\ Part = "machine"
  /\ LET all == \A i \in 1..Len(chans) : chans[i]
         any == \E i \in 1..Len(chans) : chans[i]
         \* help.go:616-740: WaitForAll returns nil early for no channels, then
         \* ctx.Err(); WaitForAny checks ctx first
         ret == IF fn = "WaitForAll"
                THEN IF chans = <<>> THEN "nil" ELSE IF ctxDone THEN "ctx"
                     ELSE IF all THEN "nil" ELSE "timeout"
                ELSE IF ctxDone THEN "ctx" ELSE IF any THEN "nil" ELSE "timeout"
     IN /\ call' = [kind |-> "wait", fn |-> fn, chans |-> chans, ctx |-> ctxDone, ret |-> ret]
        /\ verdict' = [AllTrue EXCEPT !.helper = WaitLaw(fn, chans, ctxDone, ret)]
  /\ UNCHANGED <<m, held, phase>>

(* totality obligation: in every phase, for every argument class, a call of   *)
(* any exported function returns                                              *)
TotalCall(cls) ==
  /\ Part = "machine"
  /\ call' = [kind |-> "total", phase |-> phase, cls |-> cls, outcome |-> "ok"]
  /\ verdict' = [AllTrue EXCEPT !.total = TotalLaw("ok")]
  /\ UNCHANGED <<m, held, phase>>

MachineNext ==
  \/ StartTx \/ QueueBehind \/ EndTx \/ Err \/ SetSchema \/ SetTagsTracers \/ Dispose
  \/ \E g \in Getters : Get(g) \/ MutateReturned(g)
  \/ \E fn \in HelperFns, p \in BOOLEAN : HelperCall(fn, p)
  \/ \E fn \in ListFns, lst \in MemberLists : HelperListCall(fn, lst)
  \/ \E fn \in {"WaitForAll", "WaitForAny"}, ch \in SeqsUpTo(BOOLEAN, 4), cd \in BOOLEAN :
       WaitCall(fn, ch, cd)
  \/ \E cls \in ArgClasses : TotalCall(cls)

---------------------------------------------------------------------------
(* async helpers: one behaviour per (entry point, scenario, interleaving)     *)
AsyncStart ==
  /\ call = None
  /\ \E fn \in AsyncFns, sc \in AsyncScenarios :
       call' = [kind |-> "async", fn |-> fn, sc |-> sc, h |-> AsyncInit(AsyncOrder, sc)]
  /\ verdict' = AllTrue
  /\ UNCHANGED <<m, held, phase>>

AsyncStep ==
  /\ call # None /\ call.kind = "async"
  /\ \E g \in AsyncSucc(AsyncOrder, call.sc, call.h) :
       /\ call' = [call EXCEPT !.h = g]
       /\ verdict' = IF g.pc = "done"
                     THEN [AllTrue EXCEPT !.helper = AsyncLaw(call.sc, AsyncObs(g), g.ret)]
                     ELSE AllTrue
  /\ UNCHANGED <<m, held, phase>>

AsyncNext == AsyncStart \/ AsyncStep

MCInit == /\ call = None /\ verdict = AllTrue /\ m = M0 /\ held = None /\ phase = "fresh"
MCNext == IF Part = "machine" THEN MachineNext
          ELSE IF Part = "async" THEN AsyncNext ELSE AlgStep
MCSpec == MCInit /\ [][MCNext]_vars

Inv_NoPanic == verdict.nopanic
Inv_Law == verdict.law
Inv_Copy == verdict.copy
Inv_Helper == verdict.helper
Inv_Total == verdict.total
(* every (phase, class) cell of the sweep is reachable in the lifecycle       *)
CellsReached == TRUE

(* algebra parts: one state per input; machine part: the call record is an   *)
(* observation only (the verdict stays in the view)                          *)
MCView == IF Part = "machine" THEN <<None, verdict, m, held, phase>>
          ELSE <<call, verdict, m, held, phase>>

---------------------------------------------------------------------------
(* what the model predicts for the code AS FOUND (Fix = FALSE): evaluated     *)
(* once, printed as a set of tags; bounds are the MC constants                *)
BadAsFound(fn, a) == LET c == CodeRes(fn, FALSE, a) IN c.p \/ ~LawOk(fn, a, c.r)
PredictAlg ==
  {fn \in AlgFns :
     LET Hit(f, a) == f = fn /\ BadAsFound(f, a)
     IN ExListCall(Hit) \/ ExTimeCall(Hit) \/ ExQueueCall(Hit)}
PredictHelpers ==
  {fn \in HelperFns : \E d \in BOOLEAN, q \in BOOLEAN, p \in BOOLEAN :
     LET sc == [disposed |-> d, queued |-> q, possible |-> p]
     IN ~HelperLaw(fn, sc, HelperCode(FALSE, fn, sc))}
  \cup {fn \in ListFns : \E d \in BOOLEAN, q \in BOOLEAN, lst \in MemberLists :
     LET sc == [disposed |-> d, queued |-> q]
     IN ~d /\ ~ListLaw(fn, sc, ListAfter(fn = "AddSync", sc, lst), ListCode(FALSE, fn, sc, lst))}
(* the scenarios in which the law tells the other order of the helper's      *)
(* steps (subscribe AFTER the mutation) from the code's                       *)
AsyncBreaks(order) ==
  {sc \in AsyncScenarios :
     \E h \in AsyncReach(order, sc, AsyncInit(order, sc)) : ~AsyncLaw(sc, AsyncObs(h), h.ret)}
Predict ==
  Part = "predict" =>
    /\ PrintT(<<"PREDICT", PredictAlg \cup PredictHelpers>>)
    /\ PrintT("PREDICTASYNC " \o ToString(<<Cardinality(AsyncBreaks("bind-mutate")),
                                            Cardinality(AsyncBreaks("mutate-bind")),
                                            Cardinality(AsyncScenarios),
                                            {<<sc.via, sc.mode>> : sc \in AsyncBreaks("mutate-bind")}>>))
ASSUME Predict
=============================================================================
