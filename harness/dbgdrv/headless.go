// Package dbgdrv drives a REAL, headless am-dbg (tools/debugger) for property
// C16: a tcell simulation screen instead of a terminal (the construction of the
// repo's integration tests, re-created here because internal/ is not
// importable), real telemetry from real machines (pkg/telemetry/dbg) over
// loopback TCP or through the server's ingestion states, navigation and filter
// commands through the debugger machine's states, and snapshots of Debugger.C
// taken on the debugger's own handler goroutine (Machine.Eval).
package dbgdrv

import (
	"bytes"
	"context"
	"fmt"
	"log"
	"net"
	"os"
	"path/filepath"
	"time"

	"github.com/gdamore/tcell/v2"
	amhelp "github.com/pancsta/asyncmachine-go/pkg/helpers"
	am "github.com/pancsta/asyncmachine-go/pkg/machine"
	"github.com/pancsta/asyncmachine-go/pkg/telemetry/dbg"
	"github.com/pancsta/asyncmachine-go/tools/debugger"
	"github.com/pancsta/asyncmachine-go/tools/debugger/server"
	ssdbg "github.com/pancsta/asyncmachine-go/tools/debugger/states"
	"github.com/pancsta/asyncmachine-go/tools/debugger/types"
)

var ss = ssdbg.DebuggerStates

var _ = amhelp.SchemaHash

// Headless is one running debugger without a terminal.
type Headless struct {
	D      *debugger.Debugger
	Dir    string
	ln     net.Listener
	cancel context.CancelFunc
}

// Settle is how long a command may take to settle before the run is declared
// dead (inconclusive, never a verdict).
var Settle = 45 * time.Second

// NewHeadless builds and starts a debugger. importFile (optional) is a
// .gob.br session to import.
func NewHeadless(dir, id, importFile string) (*Headless, error) {
	if err := os.MkdirAll(dir, 0o755); err != nil {
		return nil, err
	}
	screen := tcell.NewSimulationScreen("UTF-8")
	if err := screen.Init(); err != nil {
		return nil, err
	}
	screen.SetSize(140, 50)
	screen.Clear()
	p := types.Params{
		Screen:          screen,
		OutputDir:       dir,
		ImportData:      importFile,
		Id:              id,
		SelectConnected: true,
		// a new connection replaces the (disconnected) previous client
		CleanOnConnect: true,
		StartupView:    "tree-log",
		ViewTimelines:  types.ParamsViewTimelinesTwo,
		FilterGroup:    true,
		FilterLogLevel: am.LogChanges,
		// the heartbeat GC must never trim the records under test
		MaxMemMb:  1 << 20,
		LogOpsTtl: time.Hour,
		Print:     func(string, ...any) {},
	}
	var logbuf *bytes.Buffer
	if os.Getenv("DBGDRV_LOG") != "" {
		logbuf = &bytes.Buffer{}
		p.DbgLogger = log.New(logbuf, "", 0)
		p.LogLevel = am.LogOps
		if os.Getenv("DBGDRV_LOG") == "2" {
			p.DbgLogger = log.New(os.Stderr, id+" ", 0)
		}
	}
	ctx, cancel := context.WithCancel(context.Background())
	d, err := debugger.New(ctx, p)
	if err != nil {
		cancel()
		return nil, err
	}
	// the machine's 100ms handler deadline is a robustness mechanism for
	// interactive use; on a loaded verification host StartState (the UI
	// construction) alone can exceed it, which rolls Start back.  Not under test.
	d.Mach.HandlerTimeout = 30 * time.Second
	d.Mach.EvalTimeout = 30 * time.Second
	h := &Headless{D: d, Dir: dir, cancel: cancel}
	// (the Result of Add1 is not reliable here: background goroutines of the
	// debugger feed the same queue)
	d.Mach.Add1(ss.Start, nil)
	select {
	case <-d.Mach.When1(ss.Ready, nil):
	case <-time.After(Settle):
		cancel()
		if logbuf != nil {
			os.Stderr.Write(logbuf.Bytes())
		}
		return nil, fmt.Errorf("debugger not Ready: %v err=%v", d.Mach.ActiveStates(nil), d.Mach.Err())
	}
	return h, nil
}

// Close disposes the debugger.
func (h *Headless) Close() {
	if h.ln != nil {
		_ = h.ln.Close()
	}
	h.D.Mach.Dispose()
	select {
	case <-h.D.Mach.WhenDisposed():
	case <-time.After(5 * time.Second):
	}
	h.cancel()
}

// Listen opens a loopback listener whose connections are served by the real
// server.AcceptConn (net/rpc "RPCServer" with the debounced DbgMsgTx queue).
func (h *Headless) Listen() (string, error) {
	ln, err := net.Listen("tcp4", "127.0.0.1:0")
	if err != nil {
		return "", err
	}
	h.ln = ln
	go func() {
		for {
			conn, err := ln.Accept()
			if err != nil {
				return
			}
			go server.AcceptConn(conn, h.D.Mach, nil)
		}
	}()
	return ln.Addr().String(), nil
}

// wait blocks until a mutation result is processed.
func (h *Headless) wait(res am.Result) error {
	if res == am.Canceled {
		return nil
	}
	if res == am.Executed {
		return nil
	}
	select {
	case <-h.D.Mach.WhenQueue(res):
		return nil
	case <-time.After(Settle):
		return fmt.Errorf("queued mutation not processed (tick %d)", res)
	}
}

// Connect feeds a schema message through the ConnectEvent state (the entry
// point RPCServer.DbgMsgSchema uses).
func (h *Headless) Connect(msg *dbg.DbgMsgStruct, connId string) error {
	res := h.D.Mach.Add1(ss.ConnectEvent, debugger.Pass(&types.A{
		MsgStruct: msg, ConnId: connId, ClientId: msg.ID,
	}))
	return h.wait(res)
}

// Ingest feeds transition messages through the ClientMsg state (the entry
// point of RPCServer.DbgMsgTx after its debounce).
func (h *Headless) Ingest(msgs []*dbg.DbgMsgTx, connId string) error {
	ids := make([]string, len(msgs))
	for i := range ids {
		ids[i] = connId
	}
	res := h.D.Mach.Add1(ss.ClientMsg, debugger.Pass(&types.A{MsgsTx: msgs, ConnIds: ids}))
	return h.wait(res)
}

// Eval runs fn on the debugger's handler goroutine.
func (h *Headless) Eval(name string, fn func()) error {
	ctx, cancel := context.WithTimeout(context.Background(), Settle)
	defer cancel()
	if !h.D.Mach.Eval("verif"+name, fn, ctx) {
		return fmt.Errorf("eval %s failed (debugger dead or busy)", name)
	}
	return nil
}

// busyStates keep a command "in flight".
var busyStates = am.S{ss.Fwd, ss.Back, ss.ScrollToTx, ss.ToggleTool, ss.ToolToggled, ss.ClientMsg,
	ss.SelectingClient, ss.UserFwd, ss.UserBack}

// Quiesce waits until no command state is active and the queue is empty, seen
// twice in a row.
func (h *Headless) Quiesce() error {
	deadline := time.Now().Add(Settle)
	calm := 0
	for time.Now().Before(deadline) {
		m := h.D.Mach
		if !m.Any1(busyStates...) && m.QueueLen() == 0 && m.Transition() == nil {
			calm++
			if calm >= 2 {
				return nil
			}
		} else {
			calm = 0
		}
		time.Sleep(300 * time.Microsecond)
	}
	return fmt.Errorf("debugger does not settle: %v", h.D.Mach.ActiveStates(nil))
}

// WaitSelected waits until a client with the given id is selected.
func (h *Headless) WaitSelected(id string) error {
	deadline := time.Now().Add(Settle)
	for time.Now().Before(deadline) {
		ok := false
		if h.D.Mach.Is1(ss.ClientSelected) {
			_ = h.Eval("sel", func() { ok = h.D.C != nil && h.D.C.Id == id })
		}
		if ok {
			return nil
		}
		time.Sleep(2 * time.Millisecond)
	}
	return fmt.Errorf("client %s not selected: %v", id, h.D.Mach.ActiveStates(nil))
}

// Export writes the session through the debugger's own exporter.
func (h *Headless) Export(name string) (string, error) {
	h.D.VerifExportData(name, false)
	p := filepath.Join(h.Dir, name+".gob.br")
	st, err := os.Stat(p)
	if err != nil {
		return "", err
	}
	if st.Size() == 0 {
		return "", fmt.Errorf("empty export")
	}
	return p, nil
}
