package main

import (
	"bufio"
	"encoding/json"
	"flag"
	"fmt"
	"os"
	"sync"

	"verifharness/supdrv"
)

func init() { commands["sup"] = cmdSup }

// cmdSup executes supervisor cases (one JSON object per line of -in) on real
// pkg/node supervisors and writes ndjson trace shards <out>.<k>.ndjson for
// TLC (spec/TraceSupervisor.tla) plus <out>.outcomes.json.  With -schema it
// prints the supervisor / worker schemas of the current tree as JSON.
func cmdSup(args []string) int {
	fs := flag.NewFlagSet("sup", flag.ExitOnError)
	in := fs.String("in", "", "cases, one JSON object per line")
	out := fs.String("out", "sup", "output prefix")
	shards := fs.Int("shards", 1, "number of output shards")
	workers := fs.Int("workers", 16, "cases executed concurrently")
	schema := fs.Bool("schema", false, "print the node schemas of the current tree")
	fs.Parse(args)

	if *schema {
		b, err := supdrv.SchemaJSON()
		if err != nil {
			fmt.Fprintln(os.Stderr, err)
			return 2
		}
		fmt.Println(string(b))
		return 0
	}

	fh, err := os.Open(*in)
	if err != nil {
		fmt.Fprintln(os.Stderr, err)
		return 2
	}
	defer fh.Close()
	var cases []*supdrv.Case
	sc := bufio.NewScanner(fh)
	sc.Buffer(make([]byte, 1<<20), 1<<26)
	for sc.Scan() {
		if len(sc.Bytes()) == 0 {
			continue
		}
		c := &supdrv.Case{}
		if err := json.Unmarshal(sc.Bytes(), c); err != nil {
			fmt.Fprintln(os.Stderr, "bad case:", err)
			return 2
		}
		cases = append(cases, c)
	}

	outs := make([]*supdrv.Outcome, len(cases))
	var wg sync.WaitGroup
	next := make(chan int)
	for w := 0; w < *workers; w++ {
		wg.Add(1)
		go func() {
			defer wg.Done()
			for i := range next {
				outs[i] = supdrv.Run(cases[i])
			}
		}()
	}
	for i := range cases {
		next <- i
	}
	close(next)
	wg.Wait()

	files := make([]*bufio.Writer, *shards)
	var fhs []*os.File
	for k := range files {
		f, err := os.Create(fmt.Sprintf("%s.%d.ndjson", *out, k))
		if err != nil {
			fmt.Fprintln(os.Stderr, err)
			return 2
		}
		fhs = append(fhs, f)
		files[k] = bufio.NewWriterSize(f, 1<<20)
	}
	lines, stuck, miss := 0, 0, 0
	for i, o := range outs {
		if o.Stuck != "" {
			stuck++
		}
		if len(o.Miss) > 0 {
			miss++
		}
		w := files[i%*shards]
		for _, l := range o.Lines {
			w.WriteString(l)
			w.WriteByte('\n')
			lines++
		}
	}
	for k := range files {
		files[k].Flush()
		fhs[k].Close()
	}
	of, err := os.Create(*out + ".outcomes.json")
	if err != nil {
		fmt.Fprintln(os.Stderr, err)
		return 2
	}
	json.NewEncoder(of).Encode(outs)
	of.Close()
	b, _ := json.Marshal(map[string]int{"cases": len(cases), "lines": lines, "stuck": stuck, "miss": miss})
	fmt.Println(string(b))
	return 0
}
