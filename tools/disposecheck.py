#!/usr/bin/env python3
"""C13 -- Dispose releases every waiter and is safe from anywhere.

design half : TLC checks spec/Dispose.tla (any number of Dispose/DisposeForce/
              context attempts racing through the stages of doDispose):
              SingleWinner, DisposeHandlersOnce, AllWaitersReleased and, under
              fairness, Completes.  The queue goroutine's processSubscriptions
              runs beside them (QCollect: matched bindings leave the indexes;
              QClose: their channels are closed): CollectedWaitersReleased,
              NoWaiterLost, HeldGetClosed.
binding half: harness/dispdrv lands Dispose / DisposeForce / parent-context
              cancel / two Disposes / Dispose+DisposeForce on a real machine
              that is idle, draining a short or a long queue, inside a
              negotiation handler, inside a final handler, inside Eval, between
              the collection and the closing of the subscriptions matched by
              an accepted transition (landing subsCollect), or
              from inside a handler of the same machine - with and without
              handlers, with and without one outstanding waiter of every kind
              (When, WhenNot, WhenTime, WhenTicks, WhenNextActive, WhenQuery
              with/without ctx, WhenArgs, WhenQueue, two state contexts, two
              OnDispose handlers, WhenDisposed).  The dd.* stage hooks of every
              goroutine that ran doDispose are validated against Dispose.tla;
              after completion the end state is judged: every waiter released,
              contexts cancelled, dispose handlers once, handler loop gone,
              the caller neither panicked nor blocked, and ~75 API calls made
              afterwards return promptly with a neutral value.
"""
import json, os, shutil, sys

sys.path.insert(0, os.path.dirname(os.path.abspath(__file__)))
import tlcrun
from common import *

PROP = "C13"


def check(tier):
    rep = Report(PROP, tier, "model_checking")
    binary = build_harness()
    runs = []
    for attempts, forced in (("{1, 2, 3}", "{3}"), ("{1, 2, 3, 4}", "{}")):
        r = tlcrun.run_tlc("MCDispose", dict(spec="Spec", consts=dict(Attempts=attempts, Forced=forced),
                           invariants=["SingleWinner", "DisposeHandlersOnce", "AllWaitersReleased",
                                       "CollectedWaitersReleased", "NoWaiterLost"]),
                           workers=4, timeout=600)
        if r["violated"] or r["errors"]:
            raise Inconclusive("Dispose.tla: %s %s" % (r["violated"], r["errors"][:2]))
        runs.append(dict(config="attempts=%s" % attempts, states_generated=r["states"], distinct=r["distinct"]))
    r = tlcrun.run_tlc("MCDispose", dict(spec="FairSpec", consts=dict(Attempts="{1, 2}", Forced="{}"),
                       properties=["Completes", "HeldGetClosed"]), workers=4, timeout=600)
    if r["violated"] or r["errors"] or "Temporal properties were violated" in r["out"]:
        raise Inconclusive("Dispose.tla liveness: %s" % r["out"][-1500:])
    runs.append(dict(config="liveness", states_generated=r["states"], distinct=r["distinct"]))
    rep.coverage["mc_runs"] = runs
    rep.coverage["states"] = sum(x["distinct"] for x in runs)
    rep.coverage["transitions"] = sum(x["states_generated"] for x in runs)
    d = scratch(PROP)
    try:
        reps = 2 if tier == "quick" else 25
        pref = os.path.join(d, "d")
        rc, out = run([binary, "dispose", "-out", pref, "-reps", str(reps)], timeout=3000)
        if rc != 0:
            raise Inconclusive("dispose driver failed: " + out[-2000:])
        st = json.loads(out.strip().splitlines()[-1])
        fn = pref + ".0.ndjson"
        res = tlcrun.validate_traces("TraceDispose", dict(Attempts="{1, 2, 3, 4}", Forced="{}"), [fn],
                                     timeout=3000)
        r = res[0]
        if r["result"] is None:
            raise Inconclusive("trace validation failed: " + r["out"][-2000:])
        lines = open(fn).read().splitlines()
        if r["result"]["lines"] != len(lines):
            raise Inconclusive("trace not fully consumed")
        def scen(l):
            s = l - 1
            while not lines[s].startswith('{"ev":"dinit"'):
                s -= 1
            return json.loads(lines[s])["scenario"]
        for l, f in r["result"]["viol"]:
            sc = scen(l)
            sig = dict(formula=f, how=sc["how"], handlers=sc["handlers"], landing=sc["landing"], subs=sc["subs"],
                       detach=sc.get("detach", False))
            rep.violation(sig, dict(kind="dispose", property=PROP, formula=f, scenario=sc),
                          "%s in scenario %s: %s" % (f, sc, lines[l - 1][:300]))
        for l, f in r["result"]["drift"]:
            rep.drift.append("line %d: %s (%s)" % (l, f, scen(l)))
        kinds = set()
        samples = []
        for ln in lines:
            if ln.startswith('{"ev":"dinit"'):
                sc = json.loads(ln)["scenario"]
                kinds.add((sc["landing"], sc["how"], sc["handlers"], sc["subs"]))
            elif ln.startswith('{"ev":"dend"') and len(samples) < 2:
                e = json.loads(ln)
                samples.append(dict(scenario=sc, completed=e["completed"], open=e["open"],
                                    disposeRuns=e["disposeRuns"], post_calls=len(e["post"])))
        rep.coverage.update(
            traces_validated_against_impl=st["scenarios"], evaluations=st["scenarios"],
            distinct_nontrivial=len(kinds), trace_lines=len(lines), exhaustive=False,
            rule="one evaluation = one disposal scenario on a real machine; distinct = distinct "
                 "(landing point, disposal method, with/without handlers, with/without outstanding "
                 "waiters); every scenario is non-trivial (a disposal always happens)",
            samples=samples)
        rep.assumptions += [
            "DisposeForce is documented to cause panics in concurrent callers: a panic seen by a caller racing with DisposeForce is not counted, everything after completion is",
            "landing points are reached with handler-side blocking and timing, not with gates inside doDispose; the stage order itself is validated from the dd.* hooks",
            "DisposeTimeout is 150 ms in these runs"]
    finally:
        shutil.rmtree(d, ignore_errors=True)
    return rep.finish()


def replay(path):
    # scenarios are a fixed enumeration: re-run the whole (quick) check
    return check(os.environ.get("VERIF_TIER", "quick"))
