----------------------------- MODULE Supervisor -----------------------------
(* The node supervisor's worker pool (pkg/node/supervisor.go) as the code is. *)
(*                                                                            *)
(* The supervisor's state-machine part is NOT re-invented: every mutation is  *)
(* resolved by Transition!RunTx (relations.go / transition.go transcription)  *)
(* on the REAL SupervisorSchema of the checked-out tree (module SupSchema,    *)
(* generated), restricted to the states that take part in pool decisions.     *)
(* On top sit                                                                 *)
(*   - the handler gates exactly as the code tests them (ForkWorkerEnter /    *)
(*     ForkingWorkerEnter: len(workers) < Max;  PoolReadyEnter / Exit:         *)
(*     len(readyWorkers()) vs min()),                                          *)
(*   - the handler bodies that touch the worker map (SetWorkerState,           *)
(*     WorkerForkedState, WorkerKilledState, ErrWorkerState, ...): `Eff`,      *)
(*   - the goroutines the handlers fork (ForkWorkerState's bootstrap wait,     *)
(*     ForkingWorkerState's TestFork call, NormalizingPoolState's rounds,      *)
(*     HeartbeatState's checks) and the environment (workers connecting,       *)
(*     becoming ready, failing, being killed, heartbeat ticks, CheckPool),     *)
(*     every one an independently enabled action that APPENDS a mutation to   *)
(*     the supervisor's queue; `Step` processes the head of the queue.  TLC   *)
(*     therefore explores every order in which the events reach the queue.    *)
(*                                                                            *)
(* Repair flags, fields of cfg (FALSE = the code as it is):                   *)
(*   cfg.gate      the fork gates also count the forks in flight              *)
(*   cfg.errmulti  ErrWorker is a Multi state: every worker error runs        *)
(*                 ErrWorkerState                                             *)
(* BootFault (TRUE = the code as it is): ErrWorkerState disposes the          *)
(*   bootstrap machine inside the handler; that call returns only when the    *)
(*   bootstrap machine's own 100ms handler timeout fires, so it races with    *)
(*   the supervisor's 100ms handler timeout: the transition MAY be rolled     *)
(*   back from ErrWorker on (machine.go recoverFinalPhase).                   *)
(*                                                                            *)
(* The two events of ONE fork reach the queue in either order.  The fork seam *)
(* (TestFork / exec) starts the worker process; the worker dials its          *)
(* bootstrap on its own (WorkerConnected -> WorkerForked) while the goroutine *)
(* of ForkingWorkerState adds SetWorker only after the seam returned.         *)
(*   Connect(f)       the usual order: the seam returned, SetWorker ran       *)
(*   ConnectEarly(f)  the worker announces itself while the seam has not      *)
(*                    returned yet (ph = "forking": WorkerForked is processed *)
(*                    before SetWorker even reached the queue) or while       *)
(*                    SetWorker still sits in the queue (ph = "setq")         *)
(* As the code is, WorkerForkedState finds no boot entry in the first case,   *)
(* refuses the worker with ErrWorkerMissing and leaves the map alone; the     *)
(* late SetWorker then adds a boot entry nobody will ever switch to an rpc    *)
(* one.  Only SetWorkerState ever grows the map (MapGrowsOnlyBySet).          *)
(*   DropBoot(f)      the other way to a WorkerForked without a boot entry:   *)
(*                    the entry is removed while the worker is booting        *)
(*                    (SetWorker without WorkerInfo / WorkerKilled naming the *)
(*                    boot address), the worker connects afterwards           *)
EXTENDS Transition, SupSchema, Json

CONSTANTS BootFault,
          MaxForks,     \* fork attempts (bootstraps created)
          MaxFail,      \* TestFork calls that return an error
          MaxExpire,    \* bootstraps that time out (fork parked / worker never connects)
          MaxConn,      \* workers that connect
          Rounds,       \* rounds of one NormalizingPool goroutine (code: 5)
          MaxErr,       \* injected worker errors
          MaxHb,        \* heartbeat ticks
          MaxCheck,     \* CheckPool() calls
          MaxFlip,      \* readiness changes / disconnects of workers
          MaxEarly,     \* workers that announce themselves BEFORE their fork call returned
          MaxDrop,      \* boot entries taken out of the map while the worker is still booting
          QueueLimit,   \* events reach the queue only while it is shorter
          Emit,         \* record the schedule of controllable events
          Memo          \* memoise PoolTx in TLC's registers (bounded model only)

VARIABLES cfg,      \* [min, max, warm, errkill]  Supervisor.Min/Max/Warm/WorkerErrKill
                    \* + [gate, errmulti] the variant of the code (repair flags)
          active,   \* active states of the supervisor machine (PoolK, machine order)
          queue,    \* the supervisor machine's mutation queue
          wk,       \* fork attempt / worker id -> record (see NoWorker)
          norm,     \* the NormalizingPoolState goroutine
          hb,       \* the HeartbeatState goroutine
          cnt,      \* bounds bookkeeping
          bad,      \* names of action formulas found false
          wit,      \* witness tags raised by the last step (schedule emission)
          hist      \* controllable events so far (Emit)

vars == <<cfg, active, queue, wk, norm, hb, cnt, bad, wit, hist>>

---------------------------------------------------------------------------
(* the schema                                                                 *)

PoolK == {"Exception", "ErrWorker", "ErrPool", "Start", "Heartbeat", "PoolStarting",
          "NormalizingPool", "PoolNormalized", "PoolReady", "WorkersAvailable",
          "ListWorkers", "SetWorker", "ForkWorker", "ForkingWorker", "WorkerConnected",
          "WorkerForked", "KillingWorker", "WorkerKilled", "WorkerReady", "WorkerGone"}

(* Multi states whose handler removes them again (s.Mach.Remove1(state)); no  *)
(* other state refers to them, so whether they are active is irrelevant and   *)
(* the bounded model drops them right after the transition.                   *)
OpStates == {"ListWorkers", "SetWorker", "ForkWorker", "ForkingWorker", "WorkerConnected",
             "WorkerForked", "KillingWorker", "WorkerKilled", "WorkerReady", "WorkerGone"}

KeepK(q) == SelectSeq(q, LAMBDA x : x \in PoolK)

SchOf(errMulti) ==
  [n \in PoolK |->
     [auto    |-> SupSchemaDef[n].auto,
      multi   |-> IF n = "ErrWorker" /\ errMulti THEN TRUE ELSE SupSchemaDef[n].multi,
      require |-> KeepK(SupSchemaDef[n].require),
      add     |-> KeepK(SupSchemaDef[n].add),
      remove  |-> KeepK(SupSchemaDef[n].remove),
      after   |-> KeepK(SupSchemaDef[n].after)]]

SchCode == SchOf(FALSE)
SchRep  == SchOf(TRUE)
Idx     == KeepK(SupIndex)

(* the projection is sound only if PoolK is closed under the relations of its *)
(* members and nothing refers to the op states                                *)
SchemaAssumptions ==
  /\ PoolK \subseteq SSet(SupIndex)
  /\ \A n \in PoolK : \A r \in {"require", "add", "remove", "after"} :
        SSet(Rel(SupSchemaDef, n, r)) \subseteq PoolK
  /\ \A n \in OpStates : SupSchemaDef[n].multi
  /\ \A n \in SSet(SupIndex) : \A o \in OpStates :
        ~SHas(SupSchemaDef[n].require, o) /\ ~SHas(SupSchemaDef[n].remove, o)
  /\ \A n \in SSet(SupIndex) : ~SupSchemaDef[n].auto

Fx == [transitive |-> TRUE, toposort |-> TRUE, exitfix |-> TRUE, selffix |-> TRUE, loopfix |-> TRUE,
       endfix |-> TRUE]

Hs == [on |-> TRUE,
       binds |-> <<[neg |-> {h \in SupNeg : h[2] \in PoolK},
                    fin |-> {h \in SupFin : h[2] \in PoolK}]>>]

ParityClock(act) == [n \in PoolK |-> IF SHas(act, n) THEN 1 ELSE 0]

TopoCode == TopoIndexOrder(SchCode, Idx)
TopoRep  == TopoIndexOrder(SchRep, Idx)

(* one supervisor transition: relations + negotiation, given which gates veto *)
PoolTx(sch, topo, act, mut, veto) ==
  RunTx(Fx, sch, Idx, topo, Hs,
        [active |-> act, clock |-> ParityClock(act)], mut, veto)

(* Memo = TRUE: TLC keeps the outcome of PoolTx per (mutation kind, active     *)
(* states, vetoing gates) in its per-worker registers (TLCGet / TLCSet; the    *)
(* registers are initialised by an ASSUME of the MC module).  PoolTx is a pure *)
(* function of these arguments; only a few hundred distinct arguments occur,   *)
(* while RunTx is by far the most expensive operator of a step.                *)
Kinds == <<"START", "FW", "FG", "SET", "FORKED", "ERR", "ERRPOOL", "REMERR", "KILLING",
           "KILLED", "ADDPR", "REMPR", "WREADY", "HB", "HBEND", "NORM", "NORMALIZED", "LIST">>

(* the <<"state", s>> handlers a transition ran, in order                     *)
StateHandlers(r) ==
  LET fins == SelectSeq(SubSeq(r.hlog, r.negLen + 1, Len(r.hlog)),
                        LAMBDA e : e[2][1] = "state")
  IN [i \in 1..Len(fins) |-> fins[i][2][2]]

(* recoverFinalPhase (machine.go:1736): the final handler of `st` overran the *)
(* timeout: st and every state whose final handler comes after it is put      *)
(* back (entered states removed, exited states re-added).                     *)
RecoverFrom(r, st) ==
  LET finals == r.exits \o r.enters
      pos == SIndex(finals, st)
      late == {finals[i] : i \in pos..Len(finals)}
      keep == SelectSeq(r.active, LAMBDA s : ~(s \in late /\ SHas(r.enters, s)))
      back == SelectSeq(r.exits, LAMBDA s : s \in late /\ ~SHas(keep, s))
  IN keep \o back

(* what Step needs of a transition                                            *)
TxSummary(r) == [active |-> r.active, accepted |-> r.accepted, applied |-> r.applied,
                 enters |-> r.enters, exits |-> r.exits, ran |-> StateHandlers(r)]

---------------------------------------------------------------------------
(* the gates, exactly as the code tests them                                  *)

MinEff(c) == IF c.min > c.max THEN c.max ELSE c.min          \* Supervisor.min()

ForkGate(c, tracked, inflightOthers) ==              \* ForkWorkerEnter, ForkingWorkerEnter
  IF c.gate THEN tracked + inflightOthers < c.max ELSE tracked < c.max
PoolReadyEnterGate(c, ready) == ready >= MinEff(c)           \* PoolReadyEnter
PoolReadyExitGate(c, ready)  == ready < MinEff(c)            \* PoolReadyExit

(* NormalizingPoolState:                                                      *)
(*   for ii := len(existing); ii < s.min()+s.Warm && ii < s.Max; ii++         *)
ForksWanted(c, existing) ==
  LET want == IF MinEff(c) + c.warm < c.max THEN MinEff(c) + c.warm ELSE c.max
  IN IF want > existing THEN want - existing ELSE 0

---------------------------------------------------------------------------
(* mutations                                                                  *)

Called(k) ==
  CASE k = "START"      -> <<"Start">>
    [] k = "FW"         -> <<"ForkWorker">>
    [] k = "FG"         -> <<"ForkingWorker">>
    [] k = "SET"        -> <<"SetWorker">>
    [] k = "FORKED"     -> <<"WorkerForked">>
    [] k = "ERR"        -> <<"ErrWorker", "Exception">>     \* EvAddErrState
    [] k = "ERRPOOL"    -> <<"ErrPool", "Exception">>
    [] k = "REMERR"     -> <<"ErrWorker", "Exception">>
    [] k = "KILLING"    -> <<"KillingWorker">>
    [] k = "KILLED"     -> <<"WorkerKilled">>
    [] k = "ADDPR"      -> <<"PoolReady">>
    [] k = "REMPR"      -> <<"PoolReady">>
    [] k = "WREADY"     -> <<"WorkerReady">>
    [] k = "HB"         -> <<"Heartbeat">>
    [] k = "HBEND"      -> <<"Heartbeat">>
    [] k = "NORM"       -> <<"NormalizingPool">>
    [] k = "NORMALIZED" -> <<"PoolNormalized">>
    [] k = "LIST"       -> <<"ListWorkers">>

TypeOf(k) == IF k \in {"REMERR", "REMPR", "HBEND"} THEN "remove" ELSE "add"

MutOf(k) == [type |-> TypeOf(k), called |-> Called(k), auto |-> FALSE, check |-> FALSE]

(* src: ERR  "inj" | "health" (LocalAddr = the worker's map key)              *)
(*           "boot" (Bootstrap argument, no address) | "missing" | "kill"     *)
(*      SET  "info" (WorkerInfo given) | "del"                                *)
M(k) == [k |-> k, w |-> 0, src |-> ""]
MW(k, w) == [k |-> k, w |-> w, src |-> ""]
MS(k, w, src) == [k |-> k, w |-> w, src |-> src]

(* queueMutation (machine.go:1312): a mutation without args on non-Multi      *)
(* states is dropped when the same one is already queued                      *)
Argless(k) == k \in {"ADDPR", "REMPR", "HB", "HBEND", "NORM", "NORMALIZED"}

Enq(pending, q, m) ==
  IF Argless(m.k) /\ \E i \in 1..Len(pending \o q) : (pending \o q)[i].k = m.k
  THEN q ELSE Append(q, m)

(* Machine.WillBe1(Exception): a queued Add whose called states hold it       *)
WillBeException(q) == \E i \in 1..Len(q) : q[i].k \in {"ERR", "ERRPOOL"}

---------------------------------------------------------------------------
(* the worker map                                                             *)

(* early: the worker announced itself (WorkerForked queued) before SetWorker   *)
(*        for its fork was processed                                           *)
NoWorker == [ph |-> "free", inmap |-> "none", nrdy |-> FALSE, errs |-> 0, dead |-> FALSE,
             killreq |-> FALSE, killconf |-> FALSE, bexp |-> FALSE, deliv |-> 0, tf |-> 0,
             early |-> FALSE]

Tracked(w)  == {f \in DOMAIN w : w[f].inmap # "none"}                   \* s.workers
ReadySet(w) == {f \in DOMAIN w : w[f].inmap = "rpc" /\ w[f].nrdy /\ w[f].errs = 0}
                                                                        \* readyWorkers()
Inflight(w) == {f \in DOMAIN w : w[f].ph \in {"boot", "fgq", "forking", "setq"}}

Cap(n, c) == IF n > c THEN c ELSE n

(* does an ErrWorker mutation name a tracked worker by its map key?           *)
ErrCounts(w, m) ==
  /\ m.src \in {"inj", "health"}
  /\ m.w \in DOMAIN w
  /\ w[m.w].inmap = "rpc"

NormIdle == [ph |-> "idle", round |-> 0, k |-> 0]
HbIdle   == [ph |-> "idle", snap |-> {}, rep |-> {}]

(* The body of handler <<"state", s>> for mutation m.  acc = [wk, q, norm,    *)
(* hb, nf]: the worker map, the mutations the handlers of this transition     *)
(* queued so far, the goroutines they started, fork attempts allocated.       *)
(* qrest = what was already queued behind the mutation being processed.       *)
Eff(c, acc, s, m, qrest) ==
  LET w == m.w
      has == w \in DOMAIN acc.wk
  IN
  CASE s = "NormalizingPool" ->                       \* NormalizingPoolState: go func()
         [acc EXCEPT !.norm = [ph |-> "list", round |-> 1, k |-> 0]]
    [] s = "Heartbeat" ->                             \* HeartbeatState
         LET rs == ReadySet(acc.wk)
         IN IF rs = {} THEN [acc EXCEPT !.q = Enq(qrest, @, M("HBEND"))]
            ELSE [acc EXCEPT !.hb = [ph |-> "hc", snap |-> rs, rep |-> {}]]
    [] s = "ForkWorker" ->                            \* ForkWorkerState: newBootstrap
         IF acc.nf < MaxForks
         THEN [acc EXCEPT !.nf = @ + 1, !.wk[acc.nf + 1].ph = "boot"]
         ELSE acc
    [] s = "ForkingWorker" /\ has ->                  \* ForkingWorkerState: go TestFork()
         IF Emit
         THEN [acc EXCEPT !.wk[w].ph = "forking", !.wk[w].tf = acc.tf + 1, !.tf = @ + 1]
         ELSE [acc EXCEPT !.wk[w].ph = "forking"]
    [] s = "SetWorker" /\ has ->                      \* SetWorkerState: no gate at all
         IF m.src = "del"
         THEN [acc EXCEPT !.wk[w].inmap = "none"]
         ELSE [acc EXCEPT !.wk[w].inmap = "boot", !.wk[w].errs = 0,
                          !.wk[w].ph = IF @ = "setq"
                                       THEN (IF acc.wk[w].bexp THEN "lost" ELSE "up")
                                       ELSE @]
    [] s = "WorkerForked" /\ has ->                   \* WorkerForkedState
         IF acc.wk[w].inmap = "boot"
         THEN [acc EXCEPT !.wk[w].inmap = "rpc",
                          !.wk[w].ph = IF @ = "connq" \/ (@ = "up" /\ acc.wk[w].early)
                                       THEN "rpc" ELSE @,
                          !.q = Enq(qrest, @, M("ADDPR"))]
         \* no boot entry (the worker is ahead of its SetWorker, or the entry is
         \* gone): AddErrWorker(ErrWorkerMissing, {LocalAddr}); return -- the map
         \* is not touched
         ELSE [acc EXCEPT !.q = Append(@, MS("ERR", w, "missing"))]
    [] s = "ErrWorker" ->                             \* ErrWorkerState
         LET a1 == IF WillBeException(qrest \o acc.q) THEN acc
                   ELSE [acc EXCEPT !.q = Append(@, M("REMERR"))]
             counts == ErrCounts(acc.wk, m)
             e1 == IF counts THEN acc.wk[w].errs + 1 ELSE 0
             a2 == IF counts THEN [a1 EXCEPT !.wk[w].errs = Cap(e1, c.errkill + 2)] ELSE a1
             a3 == IF counts /\ e1 > c.errkill
                   THEN [a2 EXCEPT !.q = Append(@, MW("KILLING", w))] ELSE a2
         IN [a3 EXCEPT !.q = Enq(qrest, @, M("REMPR"))]
    [] s = "KillingWorker" /\ has ->                  \* KillingWorkerState: TestKill(addr)
         [acc EXCEPT !.wk[w].killreq = TRUE, !.wk[w].dead = TRUE]
    [] s = "WorkerKilled" /\ has ->                   \* WorkerKilledState
         [acc EXCEPT !.wk[w].inmap = "none", !.q = Enq(qrest, @, M("REMPR"))]
    [] s = "ListWorkers" ->                           \* ListWorkersState -> WorkersCh
         IF acc.norm.ph = "listq"
         THEN LET k == ForksWanted(c, Cardinality(Tracked(acc.wk)))
              IN [acc EXCEPT !.norm.k = k, !.norm.ph = IF k > 0 THEN "fork" ELSE "check"]
         ELSE acc
    [] OTHER -> acc

(* fold Eff over the state handlers a transition ran                          *)
RunHandlers(c, acc0, hs, m, qrest) ==
  LET RECURSIVE Go(_, _)
      Go(i, a) == IF i > Len(hs) THEN a ELSE Go(i + 1, Eff(c, a, hs[i], m, qrest))
  IN Go(1, acc0)

(* which gates would veto now                                                 *)
VetoSet(c, w, m) ==
  LET t == Cardinality(Tracked(w))
      others == Cardinality(Inflight(w) \ {m.w})
      r == Cardinality(ReadySet(w))
  IN (IF ForkGate(c, t, others) THEN {}
      ELSE {<<1, <<"enter", "ForkWorker">>>>, <<1, <<"enter", "ForkingWorker">>>>})
     \cup (IF PoolReadyEnterGate(c, r) THEN {} ELSE {<<1, <<"enter", "PoolReady">>>>})
     \cup (IF PoolReadyExitGate(c, r) THEN {} ELSE {<<1, <<"exit", "PoolReady">>>>})

---------------------------------------------------------------------------
(* behaviour                                                                  *)

Cnt0 == [nf |-> 0, tf |-> 0, fail |-> 0, expire |-> 0, conn |-> 0, err |-> 0, hb |-> 0,
         check |-> 0, flip |-> 0, wready |-> 0, pr |-> FALSE, early |-> 0, drop |-> 0]

InitWith(c) ==
  /\ cfg = c
  /\ active = <<>>
  /\ queue = <<M("START")>>                           \* Supervisor.Start()
  /\ wk = [f \in 1..MaxForks |-> NoWorker]
  /\ norm = NormIdle /\ hb = HbIdle
  /\ cnt = Cnt0
  /\ bad = {} /\ wit = {} /\ hist = <<>>

(* Emit: the schedule of controllable events; busy = the event reached the     *)
(* supervisor while its queue was not empty (the driver parks the supervisor   *)
(* machine to reproduce that)                                                  *)
H(op) == IF Emit THEN Append(hist, op @@ [busy |-> queue # <<>>]) ELSE hist

Room == Len(queue) < QueueLimit

(* processQueue: one transition of the supervisor machine; mayFault: the      *)
(* ErrWorkerState handler overruns its timeout (only with a Bootstrap arg)    *)
StepF(mayFault) ==
  /\ queue # <<>>
  /\ LET m == Head(queue)
         qrest == Tail(queue)
         vs == VetoSet(cfg, wk, m)
         reg == SIndex(Kinds, m.k)
         key == <<active, vs, cfg.errmulti>>
         sch == IF cfg.errmulti THEN SchRep ELSE SchCode
         topo == IF cfg.errmulti THEN TopoRep ELSE TopoCode
         r == IF Memo
              THEN LET tab == TLCGet(reg)
                   IN IF key \in DOMAIN tab THEN tab[key]
                      ELSE LET v == TxSummary(PoolTx(sch, topo, active, MutOf(m.k), vs))
                           IN IF TLCSet(reg, tab @@ (key :> v)) THEN v ELSE v
              ELSE TxSummary(PoolTx(sch, topo, active, MutOf(m.k), vs))
         fault == /\ mayFault /\ m.k = "ERR" /\ m.src = "boot"
                  /\ r.applied /\ SHas(r.enters, "ErrWorker")
         ran0 == r.ran
         ran == IF fault THEN SubSeq(ran0, 1, SIndex(ran0, "ErrWorker")) ELSE ran0
         act1 == IF fault THEN RecoverFrom(r, "ErrWorker") ELSE r.active
         act2 == SelectSeq(act1, LAMBDA s : s \notin OpStates)
         t0 == Cardinality(Tracked(wk))
         r0 == Cardinality(ReadySet(wk))
         \* bookkeeping that is not a handler body
         wk0 == IF m.k = "FG" /\ ~r.accepted /\ m.w \in DOMAIN wk
                THEN [wk EXCEPT ![m.w].ph = "rejected"]
                ELSE IF m.k = "ERR" /\ r.accepted /\ ErrCounts(wk, m)
                THEN [wk EXCEPT ![m.w].deliv = Cap(@ + 1, cfg.errkill + 2)]
                ELSE wk
         acc == RunHandlers(cfg, [wk |-> wk0, q |-> <<>>, norm |-> norm, hb |-> hb,
                                  nf |-> cnt.nf, tf |-> cnt.tf], ran, m, qrest)
         prB == SHas(active, "PoolReady")
         prA == SHas(act2, "PoolReady")
         errRan == SHas(ran, "ErrWorker")
     IN /\ active' = act2
        /\ queue' = qrest \o acc.q
        /\ wk' = acc.wk /\ norm' = acc.norm /\ hb' = acc.hb
        /\ cnt' = [cnt EXCEPT !.nf = acc.nf, !.tf = acc.tf, !.pr = @ \/ prA]
        /\ bad' = bad
             \cup (IF ~prB /\ prA /\ ~(r0 >= MinEff(cfg)) THEN {"PoolReadyHonest"} ELSE {})
             \cup (IF prB /\ ~prA /\ SHas(act2, "Start") /\ r0 >= MinEff(cfg)
                   THEN {"PoolReadyKept"} ELSE {})
             \cup (IF SHas(ran, "ForkingWorker") /\ ~(t0 < cfg.max)
                   THEN {"NoForkAtMax"} ELSE {})
             \cup (IF SHas(ran, "ForkWorker") /\ ~(t0 < cfg.max)
                   THEN {"NoForkAtMax"} ELSE {})
             \cup (IF Cardinality(Tracked(acc.wk)) > t0 /\ ~SHas(ran, "SetWorker")
                   THEN {"MapGrowsOnlyBySet"} ELSE {})
        /\ wit' = (IF Cardinality(Tracked(acc.wk)) > cfg.max /\ t0 <= cfg.max
                   THEN {"overfork"} ELSE {})
             \cup (IF m.k = "ADDPR" /\ ~r.accepted /\ Tracked(wk) # {}
                   THEN {"short"} ELSE {})
             \cup (IF prB /\ ~prA THEN {"withdrawn"} ELSE {})
             \cup (IF m.k = "REMPR" /\ prB /\ ~r.accepted THEN {"kept"} ELSE {})
             \cup (IF m.k = "KILLING" THEN {"kill"} ELSE {})
             \* the worker was ahead of its SetWorker and got refused / SetWorker
             \* arrives for a fork whose worker has announced itself already
             \cup (IF m.k = "FORKED" /\ SHas(ran, "WorkerForked") /\ m.w \in DOMAIN wk
                      /\ wk[m.w].inmap # "boot" /\ wk[m.w].early
                   THEN {"forkedfirst"} ELSE {})
             \cup (IF m.k = "SET" /\ m.src = "info" /\ SHas(ran, "SetWorker") /\ m.w \in DOMAIN wk
                      /\ wk[m.w].early
                   THEN {"lateset"} ELSE {})
             \cup (IF m.k = "FORKED" /\ SHas(ran, "WorkerForked") /\ m.w \in DOMAIN wk
                      /\ wk[m.w].inmap # "boot" /\ ~wk[m.w].early
                   THEN {"forkeddropped"} ELSE {})
             \cup (IF m.k = "ERR" /\ r.accepted /\ ErrCounts(wk, m) /\ ~errRan
                   THEN {"errlost"} ELSE {})
        \* observable, not controllable: a TestFork call arrived (is parked)
        /\ hist' = IF Emit /\ SHas(ran, "ForkingWorker")
                   THEN Append(hist, [k |-> "arrive", i |-> acc.tf, ok |-> TRUE, busy |-> FALSE])
                   ELSE hist
        /\ UNCHANGED cfg

Step ==
  \/ StepF(FALSE)
  \/ /\ BootFault /\ queue # <<>> /\ Head(queue).k = "ERR" /\ Head(queue).src = "boot"
     /\ StepF(TRUE)

(* ---- the goroutine ForkWorkerState starts: bootstrap RpcReady, then        *)
(*      s.Mach.EvAdd1(e, ForkingWorker, {Bootstrap})                          *)
BootReady(f) ==
  /\ Room /\ wk[f].ph = "boot"
  /\ queue' = Append(queue, MW("FG", f))
  /\ wk' = [wk EXCEPT ![f].ph = "fgq"]
  /\ wit' = {}
  /\ UNCHANGED <<cfg, active, norm, hb, cnt, bad, hist>>

(* ---- the goroutine ForkingWorkerState starts: TestFork(bootAddr) returns   *)
ForkRet(f, ok) ==
  /\ Room /\ wk[f].ph = "forking"
  /\ IF ok
     THEN /\ queue' = Append(queue, MS("SET", f, "info"))         \* "fake entry"
          /\ wk' = [wk EXCEPT ![f].ph = "setq"]
          /\ cnt' = cnt
     ELSE /\ cnt.fail < MaxFail
          /\ queue' = Append(queue, MS("ERR", f, "boot"))         \* AddErrWorker(.., {Bootstrap})
          /\ wk' = [wk EXCEPT ![f].ph = "failed"]
          /\ cnt' = [cnt EXCEPT !.fail = @ + 1]
  /\ hist' = H([k |-> "fork", i |-> wk[f].tf, ok |-> ok])
  /\ wit' = {}
  /\ UNCHANGED <<cfg, active, norm, hb, bad>>

(* ---- bootstrap.StartState's timeout goroutine: no WorkerAddr within         *)
(*      ConnTimeout -> ErrWorker {Bootstrap}; ErrWorkerState disposes it       *)
BootExpire(f) ==
  /\ Room /\ wk[f].ph \in {"rejected", "forking", "up"} /\ ~wk[f].bexp
  /\ cnt.expire < MaxExpire
  /\ queue' = Append(queue, MS("ERR", f, "boot"))
  /\ wk' = [wk EXCEPT ![f].bexp = TRUE, ![f].ph = IF @ = "up" THEN "lost" ELSE @]
  /\ cnt' = [cnt EXCEPT !.expire = @ + 1]
  /\ hist' = H([k |-> "bootexpire", i |-> wk[f].tf, ok |-> FALSE])
  /\ wit' = {}
  /\ UNCHANGED <<cfg, active, norm, hb, bad>>

(* ---- the worker process connects to its bootstrap: WorkerConnected, then    *)
(*      (goroutine: rpc client to the worker) WorkerForked                     *)
Connect(f) ==
  /\ Room /\ wk[f].ph = "up" /\ ~wk[f].early /\ cnt.conn < MaxConn
  /\ queue' = Append(queue, MW("FORKED", f))
  /\ wk' = [wk EXCEPT ![f].ph = "connq"]
  /\ cnt' = [cnt EXCEPT !.conn = @ + 1]
  /\ hist' = H([k |-> "connect", i |-> wk[f].tf, ok |-> TRUE])
  /\ wit' = {}
  /\ UNCHANGED <<cfg, active, norm, hb, bad>>

(* ---- the same, but the worker is faster than the fork seam: it announces    *)
(*      itself while TestFork has not returned (SetWorker not even queued) or  *)
(*      while SetWorker is still waiting in the queue                          *)
ConnectEarly(f) ==
  /\ Room /\ wk[f].ph \in {"forking", "setq"} /\ ~wk[f].early
  /\ cnt.conn < MaxConn /\ cnt.early < MaxEarly
  /\ queue' = Append(queue, MW("FORKED", f))
  /\ wk' = [wk EXCEPT ![f].early = TRUE]
  /\ cnt' = [cnt EXCEPT !.conn = @ + 1, !.early = @ + 1]
  /\ hist' = H([k |-> "connect", i |-> wk[f].tf, ok |-> TRUE])
  /\ wit' = {}
  /\ UNCHANGED <<cfg, active, norm, hb, bad>>

(* ---- the boot entry of a worker that has not connected yet is removed:      *)
(*      Add1(SetWorker, {WorkerAddr: bootAddr}) (no WorkerInfo)                *)
DropBoot(f) ==
  /\ Room /\ wk[f].ph = "up" /\ wk[f].inmap = "boot" /\ cnt.drop < MaxDrop
  /\ queue' = Append(queue, MS("SET", f, "del"))
  /\ cnt' = [cnt EXCEPT !.drop = @ + 1]
  /\ hist' = H([k |-> "dropboot", i |-> wk[f].tf, ok |-> FALSE])
  /\ wit' = {}
  /\ UNCHANGED <<cfg, active, wk, norm, hb, bad>>

(* ---- the supervisor's replica (NetMach) of a worker follows its Ready       *)
NetReady(f) ==
  /\ wk[f].ph \in {"connq", "rpc"} /\ ~wk[f].dead /\ ~wk[f].nrdy /\ cnt.flip < MaxFlip
  /\ wk' = [wk EXCEPT ![f].nrdy = TRUE]
  /\ cnt' = [cnt EXCEPT !.flip = @ + 1]
  /\ hist' = H([k |-> "ready", i |-> wk[f].tf, ok |-> TRUE])
  /\ wit' = {}
  /\ UNCHANGED <<cfg, active, queue, norm, hb, bad>>

NetUnready(f) ==
  /\ wk[f].ph = "rpc" /\ wk[f].nrdy /\ cnt.flip < MaxFlip
  /\ wk' = [wk EXCEPT ![f].nrdy = FALSE]
  /\ cnt' = [cnt EXCEPT !.flip = @ + 1]
  /\ hist' = H([k |-> "unready", i |-> wk[f].tf, ok |-> FALSE])
  /\ wit' = {}
  /\ UNCHANGED <<cfg, active, queue, norm, hb, bad>>

(* ---- a worker dies / disconnects; the replica keeps its last state          *)
Disc(f) ==
  /\ wk[f].ph = "rpc" /\ ~wk[f].dead /\ cnt.flip < MaxFlip
  /\ wk' = [wk EXCEPT ![f].dead = TRUE]
  /\ cnt' = [cnt EXCEPT !.flip = @ + 1]
  /\ hist' = H([k |-> "disc", i |-> wk[f].tf, ok |-> FALSE])
  /\ wit' = {}
  /\ UNCHANGED <<cfg, active, queue, norm, hb, bad>>

(* ---- a worker error reaches the queue (wrpc ExceptionState pipe, ...)       *)
InjectErr(f) ==
  /\ Room /\ wk[f].ph = "rpc" /\ cnt.err < MaxErr
  /\ queue' = Append(queue, MS("ERR", f, "inj"))
  /\ cnt' = [cnt EXCEPT !.err = @ + 1]
  /\ hist' = H([k |-> "err", i |-> wk[f].tf, ok |-> FALSE])
  /\ wit' = {}
  /\ UNCHANGED <<cfg, active, wk, norm, hb, bad>>

(* ---- the kill is confirmed (KillingWorkerState adds WorkerKilled itself      *)
(*      after proc.Kill(); with the TestKill seam the test does)               *)
KillConfirm(f) ==
  /\ Room /\ wk[f].killreq /\ ~wk[f].killconf
  /\ queue' = Append(queue, MW("KILLED", f))
  /\ wk' = [wk EXCEPT ![f].killconf = TRUE]
  /\ hist' = H([k |-> "killed", i |-> wk[f].tf, ok |-> TRUE])
  /\ wit' = {}
  /\ UNCHANGED <<cfg, active, norm, hb, cnt, bad>>

(* ---- StartState's ticker (after the first PoolReady)                        *)
HbTick ==
  /\ Room /\ cnt.pr /\ cnt.hb < MaxHb
  /\ queue' = Enq(<<>>, queue, M("HB"))
  /\ cnt' = [cnt EXCEPT !.hb = @ + 1]
  /\ hist' = H([k |-> "hb", i |-> 0, ok |-> TRUE])
  /\ wit' = {}
  /\ UNCHANGED <<cfg, active, wk, norm, hb, bad>>

(* ---- Supervisor.CheckPool(): Add1(NormalizingPool); Add1(PoolReady)          *)
CheckPool ==
  /\ Room /\ cnt.check < MaxCheck /\ SHas(active, "Start")
  /\ queue' = Enq(<<>>, Enq(<<>>, queue, M("NORM")), M("ADDPR"))
  /\ cnt' = [cnt EXCEPT !.check = @ + 1]
  /\ hist' = H([k |-> "checkpool", i |-> 0, ok |-> TRUE])
  /\ wit' = {}
  /\ UNCHANGED <<cfg, active, wk, norm, hb, bad>>

(* ---- a worker's rpc client becomes Ready again: piped as WorkerReady         *)
WReady ==
  /\ Room /\ ~Emit /\ cnt.wready < 1 /\ \E f \in DOMAIN wk : wk[f].ph = "rpc"
  /\ queue' = Append(queue, M("WREADY"))
  /\ cnt' = [cnt EXCEPT !.wready = @ + 1]
  /\ wit' = {}
  /\ UNCHANGED <<cfg, active, wk, norm, hb, bad, hist>>

(* ---- the NormalizingPoolState goroutine                                      *)
NormList ==                                \* existing, err := s.Workers(ctx, "")
  /\ Room /\ norm.ph = "list"
  /\ queue' = Append(queue, M("LIST"))
  /\ norm' = [norm EXCEPT !.ph = "listq"]
  /\ wit' = {}
  /\ UNCHANGED <<cfg, active, wk, hb, cnt, bad, hist>>

NormForkOne ==                             \* s.Mach.Add1(ssS.ForkWorker, nil)
  /\ Room /\ norm.ph = "fork"
  /\ queue' = Append(queue, M("FW"))
  /\ norm' = [norm EXCEPT !.k = @ - 1, !.ph = IF norm.k = 1 THEN "check" ELSE "fork"]
  /\ wit' = {}
  /\ UNCHANGED <<cfg, active, wk, hb, cnt, bad, hist>>

NormCheckReady ==                          \* check(): len(ready) >= s.min() -> Add1(PoolReady)
  /\ Room /\ norm.ph = "check"
  /\ Cardinality(ReadySet(wk)) >= MinEff(cfg)
  /\ queue' = Enq(<<>>, queue, M("ADDPR"))
  /\ norm' = [norm EXCEPT !.ph = "pause"]
  /\ wit' = {}
  /\ UNCHANGED <<cfg, active, wk, hb, cnt, bad, hist>>

(* amhelp.Interval(ctx, s.ConnTimeout, ..) ends (check found the pool ready or  *)
(* the time is up; both only move the goroutine), Wait(PoolPause), then        *)
(* ready = s.Mach.Is1(PoolReady)                                               *)
NormRoundEnd ==
  /\ Room /\ norm.ph \in {"check", "pause"}
  /\ IF SHas(active, "PoolReady")
     THEN /\ queue' = Enq(<<>>, queue, M("NORMALIZED"))           \* defer Add1(PoolNormalized)
          /\ norm' = NormIdle
          /\ hist' = hist
     ELSE IF norm.round < Rounds
     THEN /\ queue' = queue
          /\ norm' = [norm EXCEPT !.round = @ + 1, !.ph = "list"]
          /\ hist' = H([k |-> "round", i |-> norm.round + 1, ok |-> TRUE])
     ELSE /\ queue' = Enq(<<>>, Append(queue, M("ERRPOOL")), M("NORMALIZED"))
          /\ norm' = NormIdle                                     \* "failed to normalize pool"
          /\ hist' = hist
  /\ wit' = {}
  /\ UNCHANGED <<cfg, active, wk, hb, cnt, bad>>

(* ---- the HeartbeatState goroutine                                            *)
HbErr(f) ==                                \* 3 failed Healthcheck calls -> ErrWorkerHealth
  /\ Room /\ f \in hb.snap \ hb.rep /\ wk[f].dead
  /\ queue' = Append(queue, MS("ERR", f, "health"))
  /\ hb' = [hb EXCEPT !.rep = @ \cup {f}]
  /\ wit' = {}
  /\ UNCHANGED <<cfg, active, wk, norm, cnt, bad, hist>>

(* s.Mach.Add1(ssS.PoolReady, nil); s.Mach.Remove1(ssS.PoolReady, nil) -- the    *)
(* two calls of the same goroutine are taken together                           *)
HbPoolCheck ==
  /\ Room /\ hb.ph = "hc"
  /\ queue' = Enq(<<>>, Enq(<<>>, queue, M("ADDPR")), M("REMPR"))
  /\ hb' = [hb EXCEPT !.ph = "e"]
  /\ wit' = {}
  /\ UNCHANGED <<cfg, active, wk, norm, cnt, bad, hist>>

HbEnd ==                                   \* defer s.Mach.Remove1(ssS.Heartbeat, nil)
  /\ Room /\ hb.ph = "e"
  /\ queue' = Enq(<<>>, queue, M("HBEND"))
  /\ hb' = [hb EXCEPT !.ph = "idle"]
  /\ wit' = {}
  /\ UNCHANGED <<cfg, active, wk, norm, cnt, bad, hist>>

Next ==
  \/ Step
  \/ \E f \in DOMAIN wk :
        \/ BootReady(f) \/ ForkRet(f, TRUE) \/ ForkRet(f, FALSE) \/ BootExpire(f)
        \/ Connect(f) \/ ConnectEarly(f) \/ DropBoot(f) \/ NetReady(f) \/ NetUnready(f) \/ Disc(f) \/ InjectErr(f)
        \/ KillConfirm(f) \/ HbErr(f)
  \/ HbTick \/ CheckPool \/ WReady
  \/ NormList \/ NormForkOne \/ NormCheckReady \/ NormRoundEnd
  \/ HbPoolCheck \/ HbEnd

---------------------------------------------------------------------------
(* the formulas of property C15                                               *)

(* never tracks more workers than Max                                         *)
WithinMax == Cardinality(Tracked(wk)) <= cfg.max

(* never forks while at Max (weak reading: at the moment the fork is decided, *)
(* i.e. when ForkWorkerState / ForkingWorkerState run)                        *)
NoForkAtMax == "NoForkAtMax" \notin bad

(* the worker map grows in SetWorkerState only: WorkerForkedState renames an   *)
(* entry (boot address -> local address), it never creates one -- whatever    *)
(* the order in which a fork's SetWorker and WorkerForked arrive              *)
MapGrowsOnlyBySet == "MapGrowsOnlyBySet" \notin bad

(* PoolReady becomes active only when >= min(Min, Max) workers are ready at   *)
(* that moment (action formula, evaluated in Step)                            *)
PoolReadyHonest == "PoolReadyHonest" \notin bad

(* ... and is not withdrawn while that many still are                         *)
PoolReadyKept == "PoolReadyKept" \notin bad

(* more errors than WorkerErrKill => a kill was requested.  Counted errors    *)
(* (workerInfo.errs, what the supervisor itself remembers):                   *)
KillRequested ==
  \A f \in DOMAIN wk :
     wk[f].errs > cfg.errkill =>
        wk[f].killreq \/ \E i \in 1..Len(queue) : queue[i].k = "KILLING" /\ queue[i].w = f

(* ... and errors DELIVERED to the supervisor for a tracked worker (accepted  *)
(* ErrWorker mutations naming its map key), judged once the queue is empty   *)
KillRequestedDelivered ==
  queue = <<>> => \A f \in DOMAIN wk : wk[f].deliv > cfg.errkill => wk[f].killreq

(* the pool-status and pool-normalisation groups have at most one member on   *)
GroupsExclusive ==
  /\ Cardinality(SSet(active) \cap GroupPoolStatus) <= 1
  /\ Cardinality(SSet(active) \cap GroupPoolNormalized) <= 1

=============================================================================
