package apidrv

import (
	"bufio"
	"bytes"
	"context"
	"encoding/json"
	"errors"
	"fmt"
	"io"
	"os"
	"os/exec"
	"reflect"
	"regexp"
	"runtime"
	"runtime/debug"
	"sort"
	"strings"
	"sync"
	"time"

	amhelp "github.com/pancsta/asyncmachine-go/pkg/helpers"
	amint "github.com/pancsta/asyncmachine-go/pkg/integrations"
	am "github.com/pancsta/asyncmachine-go/pkg/machine"
)

// ---------------------------------------------------------------------------
// the sweep's space

// RepState is the representative existing state the argument classes use; it
// is chosen by the seed (A, C or D).
var RepState = "A"

func SetSeed(seed int64) {
	if seed < 0 {
		seed = -seed
	}
	RepState = []string{"A", "C", "D"}[seed%3]
}

var Phases = []string{"fresh", "midqueue", "inhandler", "errored", "setschema", "disposed"}
var Classes = []string{"zero", "known", "cancelled", "evnomach"}

// Target is one exported function or method.
type Target struct {
	Key    string // machine.Machine.Add, helpers.AddSync
	Pkg    string
	Recv   reflect.Type // *T for methods, nil for functions
	Method int
	Fn     reflect.Value // for functions
	Type   reflect.Type  // func type WITHOUT the receiver
	Params []string
}

type CallSpec struct {
	K      int
	Target *Target
	Phase  string
	Cls    string
	Desc   string
}

// Excluded targets are outside the premise; every entry carries its reason
// (printed in the evidence).
var reExcluded = []struct {
	re  *regexp.Regexp
	why string
}{
	{regexp.MustCompile(`^machine\.ExceptionHandler\.`), "state handler callback, invoked by the machine only"},
	{regexp.MustCompile(`\.Must[A-Z]`), "Must* functions panic by contract"},
	{regexp.MustCompile(`^helpers\.(MachDebug|MachDebugEnv|MachDebugWs|EnableDebugging|SetEnvLogLevel|SemConfigEnv)$`),
		"process-wide debugging / telemetry switches (network dial, env mutation), no machine semantics"},
	{regexp.MustCompile(`^machine\.TestMockClock$`), "test-only backdoor that rewrites the clock"},
	{regexp.MustCompile(`^machine\.Subscriptions\.`),
		"internal component behind Machine.When*: Machine establishes its preconditions (parsed non-empty states, locks, live event); reached through the Machine.When* methods"},
}

// blocking helpers wait for a transition of the machine: called from inside a
// handler of that machine they wait for themselves (manual: handlers must
// not block) -- not called in the inhandler phase
var reBlocksInHandler = regexp.MustCompile(`^helpers\.(Ask|Cant(Add|Remove)$)`)

// the source event of the traced mutation variants is optional (the helpers
// pass nil); elsewhere an *Event parameter is the handler's event
var reOptionalEvent = regexp.MustCompile(`\.(Ev[A-Z]|AskEv[A-Z])|\.NewStateCtx$`)

func excluded(key string) string {
	for _, x := range reExcluded {
		if x.re.MatchString(key) {
			return x.why
		}
	}
	return ""
}

var (
	targetsOnce sync.Once
	targets     []*Target
	skipped     map[string]string
)

// Targets enumerates functions (generated table) and methods (reflection on
// the generated type table), sorted by key.
func Targets() ([]*Target, map[string]string) {
	targetsOnce.Do(func() {
		skipped = map[string]string{}
		for i := range FuncTable {
			f := FuncTable[i]
			key := f.Pkg + "." + f.Name
			if why := excluded(key); why != "" {
				skipped[key] = why
				continue
			}
			v := reflect.ValueOf(f.Fn)
			targets = append(targets, &Target{Key: key, Pkg: f.Pkg, Fn: v, Type: v.Type(), Params: f.Params})
		}
		for _, g := range GenericFuncs {
			if gv, ok := genericInst[g]; ok {
				v := reflect.ValueOf(gv.fn)
				targets = append(targets, &Target{Key: g, Pkg: strings.SplitN(g, ".", 2)[0], Fn: v,
					Type: v.Type(), Params: gv.params})
			} else {
				skipped[g] = "generic function without an instantiation in generic.go"
			}
		}
		seen := map[reflect.Type]bool{}
		for _, te := range TypeTable {
			pt := te.Ptr
			if seen[pt] || !strings.HasSuffix(pt.Elem().PkgPath(), "/"+te.Pkg) {
				continue // alias (helpers.S = machine.S): listed under its own package
			}
			seen[pt] = true
			for i := 0; i < pt.NumMethod(); i++ {
				mt := pt.Method(i)
				key := te.Pkg + "." + te.Name + "." + mt.Name
				if why := excluded(key); why != "" {
					skipped[key] = why
					continue
				}
				if _, ok := recvProviders[pt.Elem()]; !ok && !simpleKind(pt.Elem()) {
					skipped[key] = "no way to obtain a receiver of this type through the public API"
					continue
				}
				// func type without receiver
				ft := mt.Type
				ins := make([]reflect.Type, 0, ft.NumIn()-1)
				for j := 1; j < ft.NumIn(); j++ {
					ins = append(ins, ft.In(j))
				}
				outs := make([]reflect.Type, 0, ft.NumOut())
				for j := 0; j < ft.NumOut(); j++ {
					outs = append(outs, ft.Out(j))
				}
				t := &Target{Key: key, Pkg: te.Pkg, Recv: pt, Method: i,
					Type: reflect.FuncOf(ins, outs, ft.IsVariadic()), Params: methodParams(te, mt.Name, pt)}
				targets = append(targets, t)
			}
		}
		sort.Slice(targets, func(i, j int) bool { return targets[i].Key < targets[j].Key })
	})
	return targets, skipped
}

func methodParams(te TypeEntry, name string, pt reflect.Type) []string {
	if p, ok := MethodParams[te.Pkg+"."+te.Name+"."+name]; ok {
		return p
	}
	// promoted from an embedded type: look the method up on every type
	for k, p := range MethodParams {
		if strings.HasSuffix(k, "."+name) {
			return p
		}
	}
	return nil
}

func simpleKind(t reflect.Type) bool {
	switch t.Kind() {
	case reflect.Bool, reflect.Int, reflect.Int8, reflect.Int16, reflect.Int32, reflect.Int64,
		reflect.Uint, reflect.Uint8, reflect.Uint16, reflect.Uint32, reflect.Uint64, reflect.String,
		reflect.Float32, reflect.Float64:
		return true
	case reflect.Struct:
		for i := 0; i < t.NumField(); i++ {
			if !t.Field(i).IsExported() {
				return false
			}
		}
		return true
	case reflect.Slice, reflect.Map:
		return true
	}
	return false
}

// AllCalls is the deterministic call list: targets x phases x classes, with
// classes that build the same arguments as an earlier class dropped.
func AllCalls(filter string) []CallSpec {
	ts, _ := Targets()
	var out []CallSpec
	var re *regexp.Regexp
	if filter != "" {
		re = regexp.MustCompile(filter)
	}
	for _, t := range ts {
		if re != nil && !re.MatchString(t.Key) {
			continue
		}
		for _, ph := range Phases {
			if ph == "inhandler" && reBlocksInHandler.MatchString(t.Key) {
				continue
			}
			seen := map[string]bool{}
			for _, cls := range Classes {
				desc, ok := describe(t, ph, cls)
				if !ok || seen[desc] {
					continue
				}
				seen[desc] = true
				out = append(out, CallSpec{Target: t, Phase: ph, Cls: cls, Desc: desc})
			}
		}
	}
	for i := range out {
		out[i].K = i
	}
	return out
}

// Unbuildable lists the targets for which no call can be constructed in any
// phase / class (a parameter type the generator has no rule for): additions
// to the API that the sweep does NOT cover must be visible.
func Unbuildable() map[string]string {
	ts, _ := Targets()
	out := map[string]string{}
	for _, t := range ts {
		ok := false
		why := ""
		for _, cls := range Classes {
			d, o := describe(t, "fresh", cls)
			if o {
				ok = true
				break
			}
			why = d
		}
		if !ok {
			out[t.Key] = why
		}
	}
	return out
}

func PrintCalls(filter string) int {
	calls := AllCalls(filter)
	for _, c := range calls {
		fmt.Printf("%d\t%s\t%s\t%s\t%s\n", c.K, c.Target.Key, c.Phase, c.Cls, c.Desc)
	}
	_, sk := Targets()
	keys := make([]string, 0, len(sk))
	for k := range sk {
		keys = append(keys, k)
	}
	sort.Strings(keys)
	for _, k := range keys {
		fmt.Fprintf(os.Stderr, "skipped\t%s\t%s\n", k, sk[k])
	}
	return 0
}

// ---------------------------------------------------------------------------
// environments: a fresh machine in a lifecycle phase

type sweepHandlers struct {
	gate    func(e *am.Event)
	lastEv  *am.Event
	lastMx  sync.Mutex
	entered chan struct{}
}

func (h *sweepHandlers) GateState(e *am.Event) {
	if h.gate != nil {
		h.gate(e)
	}
}

func (h *sweepHandlers) AState(e *am.Event) {
	h.lastMx.Lock()
	h.lastEv = e
	h.lastMx.Unlock()
}

type txTracer struct {
	am.TracerNoOp
	mx   sync.Mutex
	last *am.Transition
}

func (t *txTracer) TransitionEnd(tx *am.Transition) {
	t.mx.Lock()
	t.last = tx
	t.mx.Unlock()
}

type Env struct {
	Phase, Cls string
	M          *am.Machine
	H          *sweepHandlers
	Tr         *txTracer
	Ev         *am.Event // live event (inhandler) or the last handled one
	Names      am.S
	cleanup    []func()
	docKey     string
}

var SweepSchema = am.Schema{
	"A":    {},
	"B":    {Require: am.S{"A"}},
	"C":    {Remove: am.S{"B"}},
	"D":    {Multi: true},
	"Gate": {},
}

func extendedSchema() (am.Schema, am.S) {
	s := am.Schema{}
	for k, v := range SweepSchema {
		s[k] = v.Clone()
	}
	s["E"] = am.State{After: am.S{"A"}}
	s[am.StateException] = am.State{Multi: true}
	names := am.S{"A", "B", "C", "D", "Gate", am.StateException, "E"}
	return s, names
}

// newEnv builds a machine in `phase`.  For "inhandler" and "midqueue" the
// returned run function executes the call while a handler is running.
func newEnv(phase, cls string) *Env {
	env := &Env{Phase: phase, Cls: cls}
	env.H = &sweepHandlers{}
	env.Tr = &txTracer{TracerNoOp: am.TracerNoOp{Id: "sweep"}}
	m := am.New(context.Background(), SweepSchema, &am.Opts{
		Id: "sweep", HandlerTimeout: 300 * time.Millisecond, Tracers: []am.Tracer{env.Tr},
	})
	env.M = m
	m.HandlersBind(env.H)
	m.Add1("A", nil) // a past transition: gives a (stale) event and a completed transition
	env.H.lastMx.Lock()
	env.Ev = env.H.lastEv
	env.H.lastMx.Unlock()
	env.Names = append(am.S{}, m.StateNames()...)
	switch phase {
	case "errored":
		m.AddErr(errors.New("sweep error"), nil)
	case "setschema":
		s, names := extendedSchema()
		if err := m.SetSchema(s, names); err != nil {
			panic("setup SetSchema: " + err.Error())
		}
		env.Names = append(am.S{}, m.StateNames()...)
	case "disposed":
		m.Dispose()
		select {
		case <-m.WhenDisposed():
		case <-time.After(2 * time.Second):
			panic("setup: dispose did not finish")
		}
	}
	return env
}

// within runs fn in the phase's execution context.
func (env *Env) within(fn func()) {
	switch env.Phase {
	case "inhandler", "midqueue":
		entered := make(chan struct{})
		release := make(chan struct{})
		if env.Phase == "inhandler" {
			// the call is made by the handler itself, one mutation queued behind
			env.H.gate = func(e *am.Event) {
				env.Ev = e
				env.M.Add1("D", nil)
				fn()
			}
			env.M.Add1("Gate", nil)
			return
		}
		// midqueue: a handler is blocked, two mutations are queued, the call
		// comes from another goroutine
		env.H.gate = func(e *am.Event) {
			close(entered)
			select {
			case <-release:
			case <-time.After(250 * time.Millisecond): // stay below HandlerTimeout
			}
		}
		go env.M.Add1("Gate", nil)
		select {
		case <-entered:
		case <-time.After(2 * time.Second):
			panic("setup: gate not entered")
		}
		env.M.Add1("D", nil)
		env.M.Remove1("A", nil)
		fn()
		close(release)
	default:
		fn()
	}
}

func (env *Env) close() {
	for _, c := range env.cleanup {
		c()
	}
	if env.M != nil {
		env.M.Dispose()
	}
}

// ---------------------------------------------------------------------------
// argument construction (type driven, per class)

var (
	tCtx      = reflect.TypeOf((*context.Context)(nil)).Elem()
	tErr      = reflect.TypeOf((*error)(nil)).Elem()
	tAny      = reflect.TypeOf((*any)(nil)).Elem()
	tEvent    = reflect.TypeOf((*am.Event)(nil))
	tMach     = reflect.TypeOf((*am.Machine)(nil))
	tApi      = reflect.TypeOf((*am.Api)(nil)).Elem()
	tS        = reflect.TypeOf(am.S{})
	tA        = reflect.TypeOf(am.A{})
	tTime     = reflect.TypeOf(am.Time{})
	tClock    = reflect.TypeOf(am.Clock{})
	tSchema   = reflect.TypeOf(am.Schema{})
	tState    = reflect.TypeOf(am.State{})
	tOpts     = reflect.TypeOf((*am.Opts)(nil))
	tMut      = reflect.TypeOf((*am.Mutation)(nil))
	tTx       = reflect.TypeOf((*am.Transition)(nil))
	tTracer   = reflect.TypeOf((*am.Tracer)(nil)).Elem()
	tResolver = reflect.TypeOf((*am.RelationsResolver)(nil)).Elem()
	tSerial   = reflect.TypeOf((*am.Serialized)(nil))
	tDur      = reflect.TypeOf(time.Duration(0))
	tRegexp   = reflect.TypeOf((*regexp.Regexp)(nil))
	tWriter   = reflect.TypeOf((*io.Writer)(nil)).Elem()
	tStrings  = reflect.TypeOf([]string{})
	tTimeIdx  = reflect.TypeOf((*am.TimeIndex)(nil))
	tStates   = reflect.TypeOf((*am.States)(nil)).Elem()
	tArgsApi  = reflect.TypeOf((*am.ArgsApi)(nil)).Elem()
	tWaitReq  = reflect.TypeOf((*amint.WaitingReq)(nil))
	tMutReq   = reflect.TypeOf((*amint.MutationReq)(nil))
	tGetReq   = reflect.TypeOf((*amint.GetterReq)(nil))
	tSubs     = reflect.TypeOf((*am.Subscriptions)(nil))
	tResult   = reflect.TypeOf(am.Result(0))
)

var reOptionalCtx = regexp.MustCompile(`(?i)ctx:\s*optional|optional ctx|optional context`)

// build returns the value for a parameter of type t named pname; desc
// describes it (used to drop duplicate classes).  env == nil: describe only.
func build(t reflect.Type, pname string, cls string, env *Env, docKey string, depth int) (reflect.Value, string, bool) {
	zero := cls == "zero"
	var m *am.Machine
	var names am.S = am.S{"A", "B", "C", "D", "Gate", am.StateException}
	if env != nil {
		m = env.M
		names = env.Names
	}
	val := func(v any) reflect.Value {
		if v == nil {
			return reflect.Zero(t)
		}
		rv := reflect.ValueOf(v)
		if rv.Type() != t && rv.Type().ConvertibleTo(t) && t.Kind() != reflect.Interface {
			rv = rv.Convert(t)
		}
		return rv
	}
	lower := strings.ToLower(pname)
	switch {
	case t == tCtx:
		switch {
		case zero && reOptionalCtx.MatchString(Docs[docKey]):
			return reflect.Zero(t), "ctx:nil", true
		case cls == "cancelled":
			if env == nil {
				return reflect.Value{}, "ctx:cancelled", true
			}
			ctx, cancel := context.WithCancel(context.Background())
			cancel()
			return reflect.ValueOf(ctx), "ctx:cancelled", true
		default:
			if env == nil {
				return reflect.Value{}, "ctx:live", true
			}
			ctx, cancel := context.WithTimeout(context.Background(), 150*time.Millisecond)
			env.cleanup = append(env.cleanup, cancel)
			return reflect.ValueOf(ctx), "ctx:live", true
		}
	case t == tEvent:
		switch {
		case cls == "evnomach":
			return reflect.ValueOf(&am.Event{Name: "AState", MachineId: "elsewhere", TransitionId: "t1"}), "ev:nomach", true
		case zero && reOptionalEvent.MatchString(docKey):
			return reflect.Zero(t), "ev:nil", true
		default:
			if env == nil {
				return reflect.Value{}, "ev:machine", true
			}
			if env.Ev == nil {
				return reflect.ValueOf(am.NewEvent(m, m)), "ev:machine", true
			}
			return reflect.ValueOf(env.Ev), "ev:machine", true
		}
	case t == tMach || t == tApi:
		if env == nil {
			return reflect.Value{}, "mach", true
		}
		return reflect.ValueOf(m).Convert(t), "mach", true
	case t == tS && lower == "index":
		return val(append(am.S{}, names...)), "S:index", true
	case t == tS && lower == "names" && !zero:
		_, n := extendedSchema()
		return val(n), "S:extnames", true
	case t == tS || t == tStrings:
		switch {
		case zero:
			return reflect.Zero(t), "S:nil", true
		case cls == "cancelled":
			return val(am.S{RepState, "B"}), "S:[" + RepState + " B]", true
		default:
			return val(am.S{RepState}), "S:[" + RepState + "]", true
		}
	case t == tA:
		if zero {
			return reflect.Zero(t), "A:nil", true
		}
		return val(am.A{"k": 1}), "A:{k}", true
	case t == tTime:
		if zero {
			return reflect.Zero(t), "Time:nil", true
		}
		// a time that goes with a states parameter has one tick per state
		n := len(names)
		if strings.HasPrefix(pname, "~") {
			n = 1
			if cls == "cancelled" {
				n = 2
			}
		}
		tm := make(am.Time, n)
		tm[0] = 1
		return val(tm), fmt.Sprint("Time:", n), true
	case t == tClock:
		if zero {
			return reflect.Zero(t), "Clock:nil", true
		}
		return val(am.Clock{"A": 1, "B": 0}), "Clock:AB", true
	case t == tSchema:
		if zero {
			return val(am.Schema{}), "Schema:empty", true
		}
		s, _ := extendedSchema()
		return val(s), "Schema:ext", true
	case t == tState:
		if zero {
			return val(am.State{}), "State:zero", true
		}
		return val(am.State{Require: am.S{"A"}, Multi: true}), "State:req", true
	case t == tOpts:
		if zero && (docKey == "machine.New" || docKey == "machine.NewCommon") {
			return reflect.Zero(t), "Opts:nil", true
		}
		return val(&am.Opts{Id: "o1", HandlerTimeout: 200 * time.Millisecond}), "Opts:id", true
	case t == tMut:
		if zero {
			return val(&am.Mutation{Type: am.MutationAdd}), "Mut:empty", true
		}
		return val(&am.Mutation{Type: am.MutationAdd, Called: []int{0}, Args: am.A{"k": 1}}), "Mut:add[0]", true
	case t == tTx:
		if env == nil {
			return reflect.Value{}, "tx", true
		}
		if env.Phase == "inhandler" && env.Ev != nil && env.Ev.Transition() != nil {
			return reflect.ValueOf(env.Ev.Transition()), "tx", true
		}
		env.Tr.mx.Lock()
		tx := env.Tr.last
		env.Tr.mx.Unlock()
		if tx == nil {
			return reflect.Value{}, "tx", false
		}
		return reflect.ValueOf(tx), "tx", true
	case t == tTracer:
		return reflect.ValueOf(&am.TracerNoOp{Id: "noop"}).Convert(t), "tracer", true
	case t == tResolver:
		if env == nil {
			return reflect.Value{}, "resolver", true
		}
		return reflect.ValueOf(m.Resolver()).Convert(t), "resolver", true
	case t == tSerial:
		if env == nil {
			return reflect.Value{}, "serialized", true
		}
		donor := am.New(context.Background(), SweepSchema, &am.Opts{Id: "sweep"})
		donor.Add1("A", nil)
		donor.VerifyStates(donor.StateNames())
		ser, _, err := donor.Export()
		if err != nil {
			panic("setup Export: " + err.Error())
		}
		donor.Dispose()
		return reflect.ValueOf(ser), "serialized", true
	case t == tTimeIdx:
		tm := make(am.Time, len(names))
		tm[0] = 1
		return reflect.ValueOf(tm.ToIndex(names)), "timeindex", true
	case t == tDur:
		// zero durations / counts are not among the zero values the property
		// lists (a zero ticker interval panics in the standard library)
		return val(20 * time.Millisecond), "dur:20ms", true
	case t == tRegexp:
		return reflect.ValueOf(regexp.MustCompile("A")), "re:A", true
	case t == tWriter:
		return reflect.ValueOf(&bytes.Buffer{}).Convert(t), "writer", true
	case t == tErr:
		return reflect.ValueOf(errors.New("e1")).Convert(t), "err", true
	case t == tWaitReq:
		switch cls {
		case "zero":
			return val(amint.NewWaitingReq()), "waitreq:empty", true
		case "cancelled":
			r := amint.NewWaitingReq()
			r.StatesNot = am.S{"B"}
			return val(r), "waitreq:not", true
		default:
			r := amint.NewWaitingReq()
			r.States = am.S{"A"}
			return val(r), "waitreq:states", true
		}
	case t == tMutReq:
		switch cls {
		case "zero":
			return val(amint.NewMutationReq()), "mutreq:empty", true
		case "cancelled":
			r := amint.NewMutationReq()
			r.Remove = am.S{"A"}
			return val(r), "mutreq:remove", true
		default:
			r := amint.NewMutationReq()
			r.Add = am.S{"A"}
			r.Args = map[string]any{"k": 1}
			return val(r), "mutreq:add", true
		}
	case t == tGetReq:
		if zero {
			return val(amint.NewGetterReq()), "getreq:empty", true
		}
		r := amint.NewGetterReq()
		r.Time, r.TimeSum, r.Clocks = am.S{"A"}, am.S{"A", "B"}, am.S{"A"}
		r.Tags, r.Export, r.Id, r.ParentId = true, true, true, true
		return val(r), "getreq:all", true
	case t == tSubs:
		if env == nil {
			return reflect.Value{}, "subs", true
		}
		return reflect.ValueOf(newSubs(m)), "subs", true
	case t == tResult:
		if zero {
			return val(am.Executed), "res:0", true
		}
		return val(am.Result(3)), "res:3", true
	}

	switch t.Kind() {
	case reflect.String:
		s := RepState
		switch {
		case strings.Contains(lower, "id"):
			s = "id1"
		case lower == "source" || lower == "msg" || lower == "in" || lower == "s":
			s = "src"
		case lower == "tag":
			s = "tagA"
		case lower == "method" || lower == "handlername":
			s = "AState"
		}
		return val(s), "str:" + s, true
	case reflect.Bool:
		return val(!zero), fmt.Sprint("bool:", !zero), true
	case reflect.Int, reflect.Int8, reflect.Int16, reflect.Int32, reflect.Int64,
		reflect.Uint, reflect.Uint8, reflect.Uint16, reflect.Uint32, reflect.Uint64:
		n := 1
		return reflect.ValueOf(n).Convert(t), fmt.Sprint("int:", n), true
	case reflect.Float32, reflect.Float64:
		return reflect.ValueOf(1.0).Convert(t), "float:1", true
	case reflect.Func:
		ft := t
		fn := reflect.MakeFunc(ft, func(args []reflect.Value) []reflect.Value {
			outs := make([]reflect.Value, ft.NumOut())
			for i := range outs {
				outs[i] = reflect.Zero(ft.Out(i))
			}
			return outs
		})
		return fn, "func", true
	case reflect.Chan:
		if t.ChanDir() == reflect.SendDir {
			return reflect.Value{}, "chan", false
		}
		ch := reflect.MakeChan(reflect.ChanOf(reflect.BothDir, t.Elem()), 0)
		ch.Close()
		return ch.Convert(t), "chan:closed", true
	case reflect.Slice:
		if zero || depth > 2 {
			return reflect.Zero(t), "slice:nil", true
		}
		if t.Elem().Kind() == reflect.Int {
			// state indexes: of states that exist
			return val([]int{0}), "idx:[0]", true
		}
		ev, d, ok := build(t.Elem(), pname, cls, env, docKey, depth+1)
		if !ok {
			return reflect.Zero(t), "slice:nil", true
		}
		if env == nil {
			return reflect.Value{}, "slice:[" + d + "]", true
		}
		s := reflect.MakeSlice(t, 1, 1)
		s.Index(0).Set(ev)
		return s, "slice:[" + d + "]", true
	case reflect.Map:
		if zero || depth > 2 {
			return reflect.Zero(t), "map:nil", true
		}
		kv, kd, ok1 := build(t.Key(), "key", cls, env, docKey, depth+1)
		vv, vd, ok2 := build(t.Elem(), pname, cls, env, docKey, depth+1)
		if !ok1 || !ok2 {
			return reflect.Zero(t), "map:nil", true
		}
		if env == nil {
			return reflect.Value{}, "map:{" + kd + ":" + vd + "}", true
		}
		mp := reflect.MakeMap(t)
		mp.SetMapIndex(kv, vv)
		return mp, "map:{" + kd + ":" + vd + "}", true
	case reflect.Struct:
		if !simpleKind(t) {
			return reflect.Value{}, "struct", false
		}
		if zero || depth > 2 {
			return reflect.Zero(t), "struct:zero", true
		}
		sv := reflect.New(t).Elem()
		descs := []string{}
		for i := 0; i < t.NumField(); i++ {
			fv, d, ok := build(t.Field(i).Type, t.Field(i).Name, cls, env, docKey, depth+1)
			if ok && env != nil && fv.IsValid() {
				sv.Field(i).Set(fv)
			}
			descs = append(descs, d)
		}
		return sv, "struct:{" + strings.Join(descs, ",") + "}", true
	case reflect.Ptr:
		if t.Elem().Kind() == reflect.Struct && simpleKind(t.Elem()) {
			sv, d, ok := build(t.Elem(), pname, cls, env, docKey, depth)
			if !ok {
				return reflect.Value{}, "ptr", false
			}
			if env == nil {
				return reflect.Value{}, "ptr:" + d, true
			}
			p := reflect.New(t.Elem())
			p.Elem().Set(sv)
			return p, "ptr:" + d, true
		}
		return reflect.Value{}, "ptr", false
	case reflect.Interface:
		switch {
		case t == tAny:
			switch lower {
			case "handlers":
				return reflect.ValueOf(&sweepHandlers{}).Convert(t), "any:handlers", true
			case "groups", "mixins":
				return reflect.ValueOf(sweepGroups{Main: am.S{"A"}}).Convert(t), "any:groups", true
			}
			return reflect.ValueOf("x").Convert(t), "any:x", true
		case t == tStates:
			return reflect.ValueOf(&am.StatesBase{}).Convert(t), "states:base", true
		case t == tArgsApi:
			return reflect.ValueOf(&am.ACheck{}).Convert(t), "argsapi:ACheck", true
		}
		return reflect.Value{}, "iface", false
	}
	return reflect.Value{}, "?", false
}

func newSubs(m *am.Machine) *am.Subscriptions {
	return am.NewSubscriptionManager(m, m.Clock(nil),
		func(s am.S) bool { return m.Is(s) }, func(s am.S) bool { return m.Not(s) },
		func(am.LogLevel, string, ...any) {})
}

// recvProviders: how a user obtains a receiver of each named type.
var recvProviders = map[reflect.Type]func(env *Env) (reflect.Value, bool){
	tMach.Elem(): func(env *Env) (reflect.Value, bool) { return reflect.ValueOf(env.M), true },
	tEvent.Elem(): func(env *Env) (reflect.Value, bool) {
		switch {
		case env.Cls == "evnomach":
			return reflect.ValueOf(&am.Event{Name: "AState", MachineId: "elsewhere", TransitionId: "t1"}), true
		case env.Ev != nil:
			return reflect.ValueOf(env.Ev), true
		}
		return reflect.ValueOf(am.NewEvent(env.M, env.M)), true
	},
	tTx.Elem(): func(env *Env) (reflect.Value, bool) {
		v, _, ok := build(tTx, "t", env.Cls, env, "", 0)
		return v, ok
	},
	tMut.Elem(): func(env *Env) (reflect.Value, bool) {
		if q := env.M.Queue(); len(q) > 0 && q[0] != nil {
			return reflect.ValueOf(q[0]), true
		}
		return reflect.ValueOf(&am.Mutation{Type: am.MutationAdd, Called: []int{0}}), true
	},
	tTimeIdx.Elem(): func(env *Env) (reflect.Value, bool) {
		tm := make(am.Time, len(env.Names))
		tm[0] = 1
		return reflect.ValueOf(tm.ToIndex(env.Names)), true
	},
	tSubs.Elem(): func(env *Env) (reflect.Value, bool) { return reflect.ValueOf(newSubs(env.M)), true },
	reflect.TypeOf(am.TracerNoOp{}): func(env *Env) (reflect.Value, bool) {
		return reflect.ValueOf(&am.TracerNoOp{Id: "noop"}), true
	},
	reflect.TypeOf(am.LastTxTracer{}): func(env *Env) (reflect.Value, bool) {
		t := am.NewLastTxTracer()
		if env.Cls != "zero" {
			env.M.TracerBind(t)
			env.M.Add1("D", nil)
		}
		return reflect.ValueOf(t), true
	},
	reflect.TypeOf(am.DefaultRelationsResolver{}): func(env *Env) (reflect.Value, bool) {
		r, ok := env.M.Resolver().(*am.DefaultRelationsResolver)
		return reflect.ValueOf(r), ok && r != nil
	},
	reflect.TypeOf(am.StatesBase{}): func(env *Env) (reflect.Value, bool) {
		return reflect.ValueOf(&am.StatesBase{}), true
	},
	tS: func(env *Env) (reflect.Value, bool) {
		if env.Cls == "zero" {
			return ptrTo(am.S(nil)), true
		}
		return ptrTo(am.S{"A", "B"}), true
	},
	tTime: func(env *Env) (reflect.Value, bool) {
		if env.Cls == "zero" {
			return ptrTo(am.Time(nil)), true
		}
		tm := make(am.Time, len(env.Names))
		tm[0] = 1
		return ptrTo(tm), true
	},
	tSchema: func(env *Env) (reflect.Value, bool) {
		if env.Cls == "zero" {
			return ptrTo(am.Schema{}), true
		}
		s, _ := extendedSchema()
		return ptrTo(s), true
	},
	tA: func(env *Env) (reflect.Value, bool) {
		if env.Cls == "zero" {
			return ptrTo(am.A(nil)), true
		}
		return ptrTo(am.A{"k": 1}), true
	},
	tClock: func(env *Env) (reflect.Value, bool) {
		if env.Cls == "zero" {
			return ptrTo(am.Clock(nil)), true
		}
		return ptrTo(am.Clock{"A": 1}), true
	},
	tSerial.Elem(): func(env *Env) (reflect.Value, bool) {
		v, _, ok := build(tSerial, "s", env.Cls, env, "", 0)
		return v, ok
	},
	tWaitReq.Elem(): func(env *Env) (reflect.Value, bool) {
		v, _, ok := build(tWaitReq, "r", env.Cls, env, "", 0)
		return v, ok
	},
	reflect.TypeOf(amhelp.StateLoop{}): func(env *Env) (reflect.Value, bool) {
		return reflect.ValueOf(amhelp.NewStateLoop(env.M, "A", nil)), true
	},
	reflect.TypeOf(amhelp.MutRequest{}): func(env *Env) (reflect.Value, bool) {
		r := amhelp.NewReqAdd(env.M, am.S{"A"}, nil)
		r.PolicyRetries, r.PolicyDelay, r.PolicyBackoff = 1, 5*time.Millisecond, 10*time.Millisecond
		return reflect.ValueOf(r), true
	},
	reflect.TypeOf(amhelp.SlogToMachLog{}): func(env *Env) (reflect.Value, bool) {
		return reflect.ValueOf(&amhelp.SlogToMachLog{Mach: env.M}), true
	},
	reflect.TypeOf(amhelp.MachGroup{}): func(env *Env) (reflect.Value, bool) {
		if env.Cls == "zero" {
			return ptrTo(amhelp.MachGroup(nil)), true
		}
		return ptrTo(amhelp.MachGroup{env.M}), true
	},
	reflect.TypeOf(amhelp.Cond{}): func(env *Env) (reflect.Value, bool) {
		if env.Cls == "zero" {
			return reflect.ValueOf(&amhelp.Cond{}), true
		}
		return reflect.ValueOf(&amhelp.Cond{Is: am.S{"A"}, Any: []am.S{{"A"}, {"B"}}, Any1: am.S{"B", "A"},
			Not: am.S{"C"}, Clock: am.Clock{"A": 1}}), true
	},
}

func ptrTo[T any](v T) reflect.Value {
	p := new(T)
	*p = v
	return reflect.ValueOf(p)
}

// paramName: the source name of parameter i; a Time that comes with a states
// list is marked "~" (one tick per listed state)
func paramName(t *Target, i int) string {
	name := ""
	if i < len(t.Params) {
		name = t.Params[i]
	}
	if t.Type.In(i) == tTime {
		for j := 0; j < t.Type.NumIn(); j++ {
			if t.Type.In(j) == tS {
				return "~" + name
			}
		}
	}
	return name
}

// describe: can the call be built, and with which argument description
func describe(t *Target, phase, cls string) (string, bool) {
	var parts []string
	if t.Recv != nil {
		rt := t.Recv.Elem()
		switch {
		case rt == tEvent.Elem():
			if cls == "evnomach" {
				parts = append(parts, "recv:ev:nomach")
			} else {
				parts = append(parts, "recv:ev:machine")
			}
		case rt == tS || rt == tTime || rt == tSchema || rt == tA || rt == tClock ||
			rt == reflect.TypeOf(amhelp.MachGroup{}) || rt == reflect.TypeOf(amhelp.Cond{}):
			if cls == "zero" {
				parts = append(parts, "recv:nil")
			} else {
				parts = append(parts, "recv:val")
			}
		case rt == reflect.TypeOf(am.LastTxTracer{}):
			parts = append(parts, "recv:"+fmt.Sprint(cls != "zero"))
		default:
			parts = append(parts, "recv")
		}
	}
	n := t.Type.NumIn()
	for i := 0; i < n; i++ {
		pt := t.Type.In(i)
		name := paramName(t, i)
		if t.Type.IsVariadic() && i == n-1 {
			if cls == "zero" {
				parts = append(parts, "variadic:none")
				continue
			}
			_, d, ok := build(pt.Elem(), name, cls, nil, t.Key, 0)
			if !ok {
				parts = append(parts, "variadic:none")
				continue
			}
			parts = append(parts, "variadic:["+d+"]")
			continue
		}
		_, d, ok := build(pt, name, cls, nil, t.Key, 0)
		if !ok {
			return "unbuildable param " + name + " " + pt.String(), false
		}
		parts = append(parts, d)
	}
	return strings.Join(parts, " "), true
}

// ---------------------------------------------------------------------------
// one call

type CallLine struct {
	Ev      string `json:"ev"`
	K       int    `json:"k"`
	Fn      string `json:"fn"`
	Phase   string `json:"phase"`
	Cls     string `json:"cls"`
	Args    string `json:"args"`
	Outcome string `json:"outcome"`
	Detail  string `json:"detail,omitempty"`
	Ms      int64  `json:"ms"`
}

// callSite marks the goroutine that is inside the library call (found by
// name and call index in the goroutine dump when the deadline passes).
//
//go:noinline
func callSite(k int, f func()) {
	f()
	runtime.KeepAlive(k)
}

var blockingStates = []string{"chan receive", "chan send", "select", "semacquire", "sync.Mutex.Lock",
	"sync.RWMutex.RLock", "sync.RWMutex.Lock", "sync.Cond.Wait", "sync.WaitGroup.Wait"}

// callState finds the goroutine of call k: its scheduler state and the first
// library frame it is parked in.
func callState(k int) (state, frame string, found bool) {
	buf := make([]byte, 4<<20)
	n := runtime.Stack(buf, true)
	marker := fmt.Sprintf("apidrv.callSite(0x%x,", k)
	for _, g := range strings.Split(string(buf[:n]), "\n\n") {
		if !strings.Contains(g, marker) {
			continue
		}
		head := g
		if i := strings.IndexByte(g, '\n'); i > 0 {
			head = g[:i]
		}
		if i, j := strings.IndexByte(head, '['), strings.IndexByte(head, ']'); i > 0 && j > i {
			state = head[i+1 : j]
			if c := strings.IndexByte(state, ','); c > 0 {
				state = state[:c]
			}
		}
		for _, l := range strings.Split(g, "\n") {
			if strings.Contains(l, "asyncmachine-go/pkg/") && !strings.HasPrefix(l, "\t") {
				frame = strings.TrimSpace(l)
				if i := strings.IndexByte(frame, '('); i > 0 {
					frame = frame[:i]
				}
				break
			}
		}
		return state, frame, true
	}
	return "", "", false
}

func isBlockingState(st string) bool {
	for _, b := range blockingStates {
		if strings.HasPrefix(st, b) {
			return true
		}
	}
	return false
}

// ExecCall runs one call with recover and a deadline.  The deadline counts
// from the moment the library function is entered; "blocked" additionally
// requires the goroutine to be parked in a blocking operation (a goroutine
// that is merely slow on a loaded box is given more time).
func ExecCall(c CallSpec, deadline time.Duration) CallLine {
	line := CallLine{Ev: "call", K: c.K, Fn: c.Target.Key, Phase: c.Phase, Cls: c.Cls, Args: c.Desc}
	t0 := time.Now()
	envSnapshot := os.Environ()
	defer restoreEnv(envSnapshot)

	type result struct{ outcome, detail string }
	res := make(chan result, 2)
	var env *Env
	started := make(chan struct{})
	go func() {
		inCall := false
		defer func() {
			if r := recover(); r != nil && !inCall {
				res <- result{"setup", fmt.Sprint(r)}
			}
		}()
		env = newEnv(c.Phase, c.Cls)
		t := c.Target
		var recv reflect.Value
		if t.Recv != nil {
			p, ok := recvProviders[t.Recv.Elem()]
			if ok {
				var ok2 bool
				recv, ok2 = p(env)
				if !ok2 {
					res <- result{"skip", "no receiver in this phase"}
					return
				}
			} else if t.Recv.Elem().Kind() == reflect.Struct {
				// plain data struct: exported fields populated from the phase
				sv, _, _ := build(t.Recv.Elem(), "recv", "known", env, t.Key, 0)
				recv = reflect.New(t.Recv.Elem())
				if sv.IsValid() {
					recv.Elem().Set(sv)
				}
			} else {
				recv = reflect.New(t.Recv.Elem()) // basic kinds: zero value
			}
			if recv.Type() != t.Recv && recv.Type().Kind() != reflect.Ptr {
				pv := reflect.New(recv.Type())
				pv.Elem().Set(recv)
				recv = pv
			}
		}
		called := false
		env.within(func() {
			// arguments are built inside the phase context (live event!)
			var args []reflect.Value
			n := t.Type.NumIn()
			for i := 0; i < n; i++ {
				pt := t.Type.In(i)
				name := paramName(t, i)
				if t.Type.IsVariadic() && i == n-1 {
					if c.Cls == "zero" {
						continue
					}
					v, _, ok := build(pt.Elem(), name, c.Cls, env, t.Key, 0)
					if ok && v.IsValid() {
						args = append(args, v)
					}
					continue
				}
				v, _, ok := build(pt, name, c.Cls, env, t.Key, 0)
				if !ok {
					res <- result{"skip", "unbuildable " + name}
					return
				}
				if !v.IsValid() {
					v = reflect.Zero(pt)
				}
				args = append(args, v)
			}
			called = true
			func() {
				defer func() {
					inCall = false
					if r := recover(); r != nil {
						res <- result{"panic", fmt.Sprint(r) + "\n" + trimStack(debug.Stack())}
					}
				}()
				inCall = true
				close(started)
				callSite(c.K, func() {
					if t.Recv != nil {
						recv.Method(t.Method).Call(args)
					} else {
						t.Fn.Call(args)
					}
				})
				res <- result{"ok", ""}
			}()
		})
		if !called {
			res <- result{"setup", "phase context did not run the call"}
		}
	}()

	// setup
	select {
	case r := <-res:
		line.Outcome, line.Detail = r.outcome, r.detail
	case <-started:
	case <-time.After(20 * time.Second):
		line.Outcome, line.Detail = "setup", "environment setup did not finish"
	}
	if line.Outcome == "" {
		tCall := time.Now()
		for ext := 0; line.Outcome == ""; ext++ {
			select {
			case r := <-res:
				line.Outcome, line.Detail = r.outcome, r.detail
			case <-time.After(deadline):
				st, frame, found := callState(c.K)
				switch {
				case found && isBlockingState(st):
					line.Outcome = "blocked"
					line.Detail = fmt.Sprintf("no return %s after entry; goroutine state [%s] in %s",
						time.Since(tCall).Round(time.Millisecond), st, frame)
				case ext >= 5:
					line.Outcome = "slow"
					line.Detail = fmt.Sprintf("no return %s after entry; goroutine state [%s] (not parked)",
						time.Since(tCall).Round(time.Millisecond), st)
				}
			}
		}
		if line.Outcome == "blocked" && c.Phase == "inhandler" {
			// the call is made BY a handler: not returning means the handler
			// overruns, which the machine's HandlerTimeout governs
			line.Outcome = "deferred"
		}
	}
	line.Ms = time.Since(t0).Milliseconds()
	if env != nil && line.Outcome != "blocked" && line.Outcome != "deferred" {
		go env.close()
	}
	return line
}

func trimStack(b []byte) string {
	lines := strings.Split(string(b), "\n")
	var out []string
	for _, l := range lines {
		if strings.Contains(l, "asyncmachine-go/pkg/") && !strings.HasPrefix(l, "\t") {
			out = append(out, strings.TrimSpace(l))
		} else if strings.HasPrefix(l, "\t") && strings.Contains(l, "/repo/pkg/") {
			out = append(out, strings.TrimSpace(strings.SplitN(strings.TrimSpace(l), " ", 2)[0]))
		}
		if len(out) >= 8 {
			break
		}
	}
	return strings.Join(out, " | ")
}

func restoreEnv(snapshot []string) {
	want := map[string]string{}
	for _, kv := range snapshot {
		if i := strings.IndexByte(kv, '='); i > 0 {
			want[kv[:i]] = kv[i+1:]
		}
	}
	for _, kv := range os.Environ() {
		if i := strings.IndexByte(kv, '='); i > 0 {
			if _, ok := want[kv[:i]]; !ok {
				os.Unsetenv(kv[:i])
			}
		}
	}
	for k, v := range want {
		if os.Getenv(k) != v {
			os.Setenv(k, v)
		}
	}
}

// ---------------------------------------------------------------------------
// worker: journals every call BEFORE making it

type WorkerOpts struct {
	From, Stride, Offset int
	Journal              string
	DeadlineMs           int
	Filter               string
}

func RunWorker(o WorkerOpts) int {
	debug.SetMaxStack(64 << 20) // unbounded recursion dies quickly
	calls := AllCalls(o.Filter)
	f, err := os.OpenFile(o.Journal, os.O_APPEND|os.O_CREATE|os.O_WRONLY, 0o644)
	if err != nil {
		fmt.Fprintln(os.Stderr, err)
		return 2
	}
	defer f.Close()
	// the library may log to stdout; keep it out of the way
	if devnull, err := os.OpenFile(os.DevNull, os.O_WRONLY, 0); err == nil {
		os.Stdout = devnull
	}
	for k := o.From; k < len(calls); k++ {
		if k%o.Stride != o.Offset {
			continue
		}
		c := calls[k]
		fmt.Fprintf(f, "{\"j\":\"start\",\"k\":%d}\n", k)
		line := ExecCall(c, time.Duration(o.DeadlineMs)*time.Millisecond)
		b, _ := json.Marshal(line)
		f.Write(append(b, '\n'))
	}
	fmt.Fprintf(f, "{\"j\":\"end\"}\n")
	return 0
}

// RunOne replays one call in this process (used by replay and for triage).
func RunOne(fn, phase, cls string, deadlineMs int) int {
	debug.SetMaxStack(64 << 20)
	for _, c := range AllCalls("^" + regexp.QuoteMeta(fn) + "$") {
		if c.Phase == phase && c.Cls == cls {
			line := ExecCall(c, time.Duration(deadlineMs)*time.Millisecond)
			b, _ := json.Marshal(line)
			fmt.Println(string(b))
			return 0
		}
	}
	fmt.Fprintln(os.Stderr, "no such call in the sweep")
	return 3
}

// ---------------------------------------------------------------------------
// coordinator

type TotalOpts struct {
	Seed       int64
	Out        string
	Shards     int
	Workers    int
	DeadlineMs int
	Filter     string
}

func RunTotal(o TotalOpts) int {
	calls := AllCalls(o.Filter)
	exe, err := os.Executable()
	if err != nil {
		fmt.Fprintln(os.Stderr, err)
		return 2
	}
	out, err := NewOut(o.Out, o.Shards)
	if err != nil {
		fmt.Fprintln(os.Stderr, err)
		return 2
	}
	results := make([]*CallLine, len(calls))
	var mx sync.Mutex
	var wg sync.WaitGroup
	restarts := 0
	for w := 0; w < o.Workers; w++ {
		wg.Add(1)
		go func(w int) {
			defer wg.Done()
			from := 0
			for attempt := 0; attempt < 200; attempt++ {
				jpath := fmt.Sprintf("%s.journal.%d.%d", o.Out, w, attempt)
				cmd := exec.Command(exe, "api", "-mode", "worker", "-from", fmt.Sprint(from),
					"-stride", fmt.Sprint(o.Workers), "-offset", fmt.Sprint(w), "-journal", jpath,
					"-deadline", fmt.Sprint(o.DeadlineMs), "-fn", o.Filter, "-seed", fmt.Sprint(o.Seed))
				var stderr bytes.Buffer
				cmd.Stderr = &limitedWriter{w: &stderr, n: 1 << 20}
				cmd.Env = append(os.Environ(), "GOTRACEBACK=single")
				if err := cmd.Start(); err != nil {
					fmt.Fprintln(os.Stderr, err)
					return
				}
				// watchdog: no journal growth for a long time = hung worker
				done := make(chan error, 1)
				go func() { done <- cmd.Wait() }()
				hung := false
				var lastSize int64 = -1
				idle := 0
			wait:
				for {
					select {
					case <-done:
						break wait
					case <-time.After(time.Second):
						st, err := os.Stat(jpath)
						var sz int64
						if err == nil {
							sz = st.Size()
						}
						if sz == lastSize {
							idle++
						} else {
							idle, lastSize = 0, sz
						}
						if idle > 90+o.DeadlineMs/1000 {
							hung = true
							cmd.Process.Kill()
							<-done
							break wait
						}
					}
				}
				last, ended := readJournal(jpath, results, &mx)
				os.Remove(jpath)
				if ended {
					return
				}
				// the worker died: the journalled call that has no result is the culprit
				mx.Lock()
				restarts++
				if last >= 0 && results[last] == nil {
					c := calls[last]
					outcome := "fatal"
					detail := fatalSummary(stderr.String())
					if hung {
						detail = "worker hung (killed by watchdog); " + detail
					}
					results[last] = &CallLine{Ev: "call", K: c.K, Fn: c.Target.Key, Phase: c.Phase,
						Cls: c.Cls, Args: c.Desc, Outcome: outcome, Detail: detail}
				}
				mx.Unlock()
				if last < 0 {
					fmt.Fprintln(os.Stderr, "worker died before its first call:", stderr.String())
					return
				}
				from = last + 1
			}
		}(w)
	}
	wg.Wait()

	// confirmation: every call that did not simply return or panic (blocked,
	// fatal, setup trouble, slow) is re-run ALONE in a fresh process with a
	// doubled deadline; the verdict of the isolated run stands.  This removes
	// verdicts caused by a stalled box or by a neighbour call's leftovers.
	var confirm []int
	for i, r := range results {
		if r == nil {
			continue
		}
		switch r.Outcome {
		case "blocked", "fatal", "setup", "slow":
			confirm = append(confirm, i)
		}
	}
	unconfirmed := 0
	sem := make(chan struct{}, 16)
	var cwg sync.WaitGroup
	for _, i := range confirm {
		cwg.Add(1)
		sem <- struct{}{}
		go func(i int) {
			defer cwg.Done()
			defer func() { <-sem }()
			c := calls[i]
			cmd := exec.Command(exe, "api", "-mode", "one", "-fn", c.Target.Key, "-phase", c.Phase,
				"-cls", c.Cls, "-deadline", fmt.Sprint(2*o.DeadlineMs), "-seed", fmt.Sprint(o.Seed))
			var stderr bytes.Buffer
			cmd.Stderr = &limitedWriter{w: &stderr, n: 1 << 20}
			cmd.Env = append(os.Environ(), "GOTRACEBACK=single")
			outb, runErr := cmd.Output()
			var l CallLine
			ok := false
			for _, ln := range strings.Split(string(outb), "\n") {
				if strings.HasPrefix(ln, `{"ev":"call"`) && json.Unmarshal([]byte(ln), &l) == nil {
					ok = true
				}
			}
			mx.Lock()
			defer mx.Unlock()
			first := results[i].Outcome
			switch {
			case !ok && runErr != nil:
				// the isolated process died inside the call
				results[i].Outcome = "fatal"
				results[i].Detail = "process died (alone): " + fatalSummary(stderr.String())
			case ok && l.Outcome == first:
				results[i].Detail += "; confirmed alone: " + l.Detail
			case ok:
				results[i].Outcome = l.Outcome
				results[i].Detail = l.Detail + " [sweep said " + first + ", isolated re-run decides]"
			}
			if results[i].Outcome != first {
				unconfirmed++
			}
		}(i)
	}
	cwg.Wait()

	counts := map[string]int{}
	nolib := []map[string]string{}
	missing := 0
	for i, r := range results {
		if r == nil {
			missing++
			c := calls[i]
			r = &CallLine{Ev: "call", K: c.K, Fn: c.Target.Key, Phase: c.Phase, Cls: c.Cls,
				Args: c.Desc, Outcome: "missing"}
		}
		counts[r.Outcome]++
		if r.Outcome == "skip" || r.Outcome == "setup" || r.Outcome == "missing" || r.Outcome == "slow" {
			// not a completed observation of the library: summary only
			if len(nolib) < 200 {
				nolib = append(nolib, map[string]string{"fn": r.Fn, "phase": r.Phase, "cls": r.Cls,
					"outcome": r.Outcome, "detail": r.Detail})
			}
			continue
		}
		out.Emit(r)
	}
	out.Close()
	_, sk := Targets()
	ts, _ := Targets()
	b, _ := json.Marshal(map[string]any{"calls": len(calls), "lines": out.Lines, "outcomes": counts,
		"restarts": restarts, "missing": missing, "targets": len(ts), "skipped": sk,
		"unobserved": nolib, "blocked_rechecked": len(confirm), "blocked_unconfirmed": unconfirmed,
		"unbuildable": Unbuildable()})
	fmt.Println(string(b))
	if missing > 0 {
		return 2
	}
	return 0
}

type limitedWriter struct {
	w io.Writer
	n int
}

func (l *limitedWriter) Write(p []byte) (int, error) {
	if l.n > 0 {
		q := p
		if len(q) > l.n {
			q = q[:l.n]
		}
		l.w.Write(q)
		l.n -= len(q)
	}
	return len(p), nil
}

func readJournal(path string, results []*CallLine, mx *sync.Mutex) (last int, ended bool) {
	last = -1
	f, err := os.Open(path)
	if err != nil {
		return
	}
	defer f.Close()
	sc := bufio.NewScanner(f)
	sc.Buffer(make([]byte, 1<<20), 1<<24)
	for sc.Scan() {
		b := sc.Bytes()
		var j struct {
			J string `json:"j"`
			K int    `json:"k"`
		}
		if json.Unmarshal(b, &j) != nil {
			continue
		}
		switch j.J {
		case "start":
			last = j.K
		case "end":
			ended = true
		default:
			var l CallLine
			if json.Unmarshal(b, &l) == nil && l.Ev == "call" {
				mx.Lock()
				if l.K >= 0 && l.K < len(results) {
					results[l.K] = &l
				}
				mx.Unlock()
			}
		}
	}
	return
}

func fatalSummary(stderr string) string {
	lines := strings.Split(stderr, "\n")
	var out []string
	for _, l := range lines {
		if strings.HasPrefix(l, "fatal error:") || strings.HasPrefix(l, "runtime:") ||
			strings.HasPrefix(l, "panic:") {
			out = append(out, l)
		}
		if strings.Contains(l, "asyncmachine-go/pkg/") && len(out) < 6 {
			out = append(out, strings.TrimSpace(l))
		}
		if len(out) >= 6 {
			break
		}
	}
	if len(out) == 0 && len(stderr) > 0 {
		if len(stderr) > 300 {
			stderr = stderr[:300]
		}
		return stderr
	}
	return strings.Join(out, " | ")
}

var _ = amhelp.IsDebug
