package apidrv

import (
	"context"
	"errors"
	"fmt"
	"sync"
	"time"

	amhelp "github.com/pancsta/asyncmachine-go/pkg/helpers"
	am "github.com/pancsta/asyncmachine-go/pkg/machine"
)

type Scenario struct {
	Disposed bool `json:"disposed"`
	Queued   bool `json:"queued"`
	Possible bool `json:"possible"`
}

type HelpLine struct {
	Ev     string   `json:"ev"`
	Fn     string   `json:"fn"`
	Base   string   `json:"base"`
	Sc     Scenario `json:"sc"`
	States am.S     `json:"states"`
	Ret    string   `json:"ret"`
	After  am.S     `json:"after"`
}

type WaitLine struct {
	Ev    string `json:"ev"`
	Fn    string `json:"fn"`
	Chans []bool `json:"chans"`
	Ctx   bool   `json:"ctx"`
	Ret   string `json:"ret"`
}

// syncHandlers: B can never be entered, C can never be exited, Gate blocks.
type syncHandlers struct {
	entered chan struct{}
	release chan struct{}
}

func (h *syncHandlers) BEnter(e *am.Event) bool { return false }
func (h *syncHandlers) CExit(e *am.Event) bool  { return false }
func (h *syncHandlers) GateState(e *am.Event) {
	close(h.entered)
	<-h.release
}

type helperFn struct {
	name, base string
	isAdd      bool
	// call returns the encoded result; for Ask* the am.Result
	call func(ctx context.Context, m *am.Machine, e *am.Event, states am.S) any
}

func helperFns() []helperFn {
	b := func(v bool) any { return v }
	return []helperFn{
		{"AddSync", "AddSync", true, func(ctx context.Context, m *am.Machine, e *am.Event, s am.S) any {
			return b(amhelp.AddSync(ctx, m, s))
		}},
		{"Add1Sync", "AddSync", true, func(ctx context.Context, m *am.Machine, e *am.Event, s am.S) any {
			return b(amhelp.Add1Sync(ctx, m, s[0]))
		}},
		{"EvAddSync", "AddSync", true, func(ctx context.Context, m *am.Machine, e *am.Event, s am.S) any {
			return b(amhelp.EvAddSync(ctx, e, m, s))
		}},
		{"EvAdd1Sync", "AddSync", true, func(ctx context.Context, m *am.Machine, e *am.Event, s am.S) any {
			return b(amhelp.EvAdd1Sync(ctx, e, m, s[0]))
		}},
		{"RemoveSync", "RemoveSync", false, func(ctx context.Context, m *am.Machine, e *am.Event, s am.S) any {
			return b(amhelp.RemoveSync(ctx, m, s))
		}},
		{"Remove1Sync", "RemoveSync", false, func(ctx context.Context, m *am.Machine, e *am.Event, s am.S) any {
			return b(amhelp.Remove1Sync(ctx, m, s[0]))
		}},
		{"EvRemoveSync", "RemoveSync", false, func(ctx context.Context, m *am.Machine, e *am.Event, s am.S) any {
			return b(amhelp.EvRemoveSync(ctx, e, m, s))
		}},
		{"EvRemove1Sync", "RemoveSync", false, func(ctx context.Context, m *am.Machine, e *am.Event, s am.S) any {
			return b(amhelp.EvRemove1Sync(ctx, e, m, s[0]))
		}},
		{"CantAdd", "CantAdd", true, func(ctx context.Context, m *am.Machine, e *am.Event, s am.S) any {
			return b(amhelp.CantAdd(m, s, nil))
		}},
		{"CantAdd1", "CantAdd1", true, func(ctx context.Context, m *am.Machine, e *am.Event, s am.S) any {
			return b(amhelp.CantAdd1(m, s[0], nil))
		}},
		{"CantRemove", "CantRemove", false, func(ctx context.Context, m *am.Machine, e *am.Event, s am.S) any {
			return b(amhelp.CantRemove(m, s, nil))
		}},
		{"CantRemove1", "CantRemove1", false, func(ctx context.Context, m *am.Machine, e *am.Event, s am.S) any {
			return b(amhelp.CantRemove1(m, s[0], nil))
		}},
		{"AskAdd", "AskAdd", true, func(ctx context.Context, m *am.Machine, e *am.Event, s am.S) any {
			return amhelp.AskAdd(m, s, nil)
		}},
		{"AskEvAdd", "AskAdd", true, func(ctx context.Context, m *am.Machine, e *am.Event, s am.S) any {
			return amhelp.AskEvAdd(e, m, s, nil)
		}},
		{"AskAdd1", "AskAdd", true, func(ctx context.Context, m *am.Machine, e *am.Event, s am.S) any {
			return amhelp.AskAdd1(m, s[0], nil)
		}},
		{"AskEvAdd1", "AskAdd", true, func(ctx context.Context, m *am.Machine, e *am.Event, s am.S) any {
			return amhelp.AskEvAdd1(e, m, s[0], nil)
		}},
		{"AskRemove", "AskRemove", false, func(ctx context.Context, m *am.Machine, e *am.Event, s am.S) any {
			return amhelp.AskRemove(m, s, nil)
		}},
		{"AskEvRemove", "AskRemove", false, func(ctx context.Context, m *am.Machine, e *am.Event, s am.S) any {
			return amhelp.AskEvRemove(e, m, s, nil)
		}},
		{"AskRemove1", "AskRemove", false, func(ctx context.Context, m *am.Machine, e *am.Event, s am.S) any {
			return amhelp.AskRemove1(m, s[0], nil)
		}},
		{"AskEvRemove1", "AskRemove", false, func(ctx context.Context, m *am.Machine, e *am.Event, s am.S) any {
			return amhelp.AskEvRemove1(e, m, s[0], nil)
		}},
	}
}

// RunHelperCase executes one helper in one scenario on a fresh machine.
func RunHelperCase(hf helperFn, sc Scenario, callDeadline time.Duration) HelpLine {
	schema := am.Schema{"A": {}, "B": {}, "C": {}, "D": {}, "Gate": {}}
	m := am.New(context.Background(), schema, &am.Opts{HandlerTimeout: time.Hour})
	h := &syncHandlers{entered: make(chan struct{}), release: make(chan struct{})}
	m.HandlersBind(h)
	defer m.Dispose()

	var states am.S
	if hf.isAdd {
		if sc.Possible {
			states = am.S{"A"}
		} else {
			states = am.S{"B"}
		}
	} else {
		m.Add(am.S{"A", "C"}, nil)
		if sc.Possible {
			states = am.S{"A"}
		} else {
			states = am.S{"C"}
		}
	}
	line := HelpLine{Ev: "help", Fn: hf.name, Base: hf.base, Sc: sc, States: states}

	if sc.Disposed {
		m.Dispose()
		<-m.WhenDisposed()
	}
	if sc.Queued {
		go m.Add1("Gate", nil)
		<-h.entered
	}

	ctx, cancel := context.WithTimeout(context.Background(), callDeadline-500*time.Millisecond)
	defer cancel()
	res := make(chan any, 1)
	go func() {
		defer func() {
			if r := recover(); r != nil {
				res <- fmt.Sprint("panic: ", r)
			}
		}()
		res <- hf.call(ctx, m, nil, states)
	}()

	if sc.Queued {
		// wait until the helper's mutation sits in the queue, then queue an
		// accepted follow-up mutation behind it and let the handler finish
		for i := 0; i < 2000 && m.QueueLen() == 0; i++ {
			time.Sleep(time.Millisecond)
		}
		m.Add1("D", nil)
		close(h.release)
	}

	holds := func() bool {
		if hf.isAdd {
			return m.Is(states)
		}
		return m.Not(states)
	}
	select {
	case v := <-res:
		switch v := v.(type) {
		case bool:
			line.Ret = fmt.Sprint(v)
		case string:
			line.Ret = v
		case am.Result:
			switch {
			case v == am.Canceled:
				line.Ret = "canceled"
			case v == am.Executed:
				if holds() {
					line.Ret = "applied"
				} else {
					line.Ret = "executed-without-effect"
				}
			default: // a queue tick: what happened is known once it is processed
				select {
				case <-m.WhenQueue(v):
				case <-time.After(time.Second):
				}
				// one more accepted mutation flushes WhenQueue in any case
				m.Add1("D", nil)
				if holds() {
					line.Ret = "applied"
				} else {
					line.Ret = "canceled"
				}
			}
		}
	case <-time.After(callDeadline):
		line.Ret = "blocked"
	}
	if !sc.Disposed {
		line.After = m.ActiveStates(nil)
	}
	if line.After == nil {
		line.After = am.S{}
	}
	return line
}

func RunWaitCase(fn string, chans []bool, ctxDone bool) WaitLine {
	ctx, cancel := context.WithCancel(context.Background())
	defer cancel()
	if ctxDone {
		cancel()
	}
	var cs []<-chan struct{}
	for _, c := range chans {
		ch := make(chan struct{})
		if c {
			close(ch)
		}
		cs = append(cs, ch)
	}
	line := WaitLine{Ev: "wait", Fn: fn, Chans: append([]bool{}, chans...), Ctx: ctxDone}
	res := make(chan string, 1)
	go func() {
		defer func() {
			if r := recover(); r != nil {
				res <- fmt.Sprint("panic: ", r)
			}
		}()
		var err error
		if fn == "WaitForAll" {
			err = amhelp.WaitForAll(ctx, 30*time.Millisecond, cs...)
		} else {
			err = amhelp.WaitForAny(ctx, 30*time.Millisecond, cs...)
		}
		switch {
		case err == nil:
			res <- "nil"
		case errors.Is(err, am.ErrTimeout):
			res <- "timeout"
		case errors.Is(err, context.Canceled):
			res <- "ctx"
		default:
			res <- "other: " + err.Error()
		}
	}()
	select {
	case line.Ret = <-res:
	case <-time.After(5 * time.Second):
		line.Ret = "blocked"
	}
	return line
}

func RunHelpers(o *Out, seed int64) {
	bools := []bool{false, true}
	type job struct {
		hf helperFn
		sc Scenario
	}
	var jobs []job
	for _, hf := range helperFns() {
		for _, d := range bools {
			for _, q := range bools {
				for _, p := range bools {
					if d && q {
						continue // a disposed machine runs no handler
					}
					if q && (hf.base == "CantAdd1" || hf.base == "CantRemove1") {
						// the non-blocking variants cannot know the outcome of a
						// queued check: outside the weak reading
						continue
					}
					jobs = append(jobs, job{hf, Scenario{d, q, p}})
				}
			}
		}
	}
	lines := make([]HelpLine, len(jobs))
	sem := make(chan struct{}, 16)
	done := make(chan struct{}, len(jobs))
	for i, j := range jobs {
		sem <- struct{}{}
		go func(i int, j job) {
			lines[i] = RunHelperCase(j.hf, j.sc, 3*time.Second)
			<-sem
			done <- struct{}{}
		}(i, j)
	}
	for range jobs {
		<-done
	}
	for _, l := range lines {
		o.Emit(l)
		o.Stats["help:"+l.Base]++
	}
	for _, fn := range []string{"WaitForAll", "WaitForAny"} {
		// every closed/open vector of 0..5 channels (arity-specific code paths
		// such as unrolled selects would otherwise go unseen)
		var vecs [][]bool
		for n := 0; n <= 5; n++ {
			for m := 0; m < 1<<n; m++ {
				v := []bool{}
				for i := 0; i < n; i++ {
					v = append(v, m&(1<<i) != 0)
				}
				vecs = append(vecs, v)
			}
		}
		for _, chans := range vecs {
			for _, c := range bools {
				o.Emit(RunWaitCase(fn, chans, c))
				o.Stats["wait:"+fn]++
			}
		}
	}
}

// ---------------------------------------------------------------------------
// Sync helpers on LISTS whose members differ (ApiAlgebra Part 3a)

// ListMember: one state of the list handed to the helper.
type ListMember struct {
	Pre  bool `json:"pre"`  // active before the call
	Veto bool `json:"veto"` // its Enter (add) / Exit (remove) handler refuses
}

type ListScenario struct {
	Disposed bool `json:"disposed"`
	Queued   bool `json:"queued"`
}

type ListLine struct {
	Ev     string       `json:"ev"`
	Fn     string       `json:"fn"`
	Base   string       `json:"base"`
	Sc     ListScenario `json:"sc"`
	List   []ListMember `json:"list"`
	States am.S         `json:"states"`
	Before []bool       `json:"before"`
	After  []bool       `json:"after"`
	Acc    bool         `json:"acc"`
	Ret    string       `json:"ret"`
}

var listNames = am.S{"L1", "L2", "L3"}

// listHandlers: every negotiation handler of a member refuses while its name
// is in veto; Gate blocks.
type listHandlers struct {
	mx      sync.Mutex
	veto    map[string]bool
	entered chan struct{}
	release chan struct{}
}

func (h *listHandlers) ok(name string) bool {
	h.mx.Lock()
	defer h.mx.Unlock()
	return !h.veto[name]
}

func (h *listHandlers) L1Enter(e *am.Event) bool { return h.ok("L1") }
func (h *listHandlers) L1Exit(e *am.Event) bool  { return h.ok("L1") }
func (h *listHandlers) L2Enter(e *am.Event) bool { return h.ok("L2") }
func (h *listHandlers) L2Exit(e *am.Event) bool  { return h.ok("L2") }
func (h *listHandlers) L3Enter(e *am.Event) bool { return h.ok("L3") }
func (h *listHandlers) L3Exit(e *am.Event) bool  { return h.ok("L3") }
func (h *listHandlers) GateState(e *am.Event) {
	close(h.entered)
	<-h.release
}

func listHelperFns() []helperFn {
	b := func(v bool) any { return v }
	mark := am.A{"helper": true}
	return []helperFn{
		{"AddSync", "AddSync", true, func(ctx context.Context, m *am.Machine, e *am.Event, s am.S) any {
			return b(amhelp.AddSync(ctx, m, s, mark))
		}},
		{"EvAddSync", "AddSync", true, func(ctx context.Context, m *am.Machine, e *am.Event, s am.S) any {
			return b(amhelp.EvAddSync(ctx, e, m, s, mark))
		}},
		{"RemoveSync", "RemoveSync", false, func(ctx context.Context, m *am.Machine, e *am.Event, s am.S) any {
			return b(amhelp.RemoveSync(ctx, m, s, mark))
		}},
		{"EvRemoveSync", "RemoveSync", false, func(ctx context.Context, m *am.Machine, e *am.Event, s am.S) any {
			return b(amhelp.EvRemoveSync(ctx, e, m, s, mark))
		}},
		// the single-state entry points (lists of one member only)
		{"Add1Sync", "AddSync", true, func(ctx context.Context, m *am.Machine, e *am.Event, s am.S) any {
			return b(amhelp.Add1Sync(ctx, m, s[0], mark))
		}},
		{"EvAdd1Sync", "AddSync", true, func(ctx context.Context, m *am.Machine, e *am.Event, s am.S) any {
			return b(amhelp.EvAdd1Sync(ctx, e, m, s[0], mark))
		}},
		{"Remove1Sync", "RemoveSync", false, func(ctx context.Context, m *am.Machine, e *am.Event, s am.S) any {
			return b(amhelp.Remove1Sync(ctx, m, s[0], mark))
		}},
		{"EvRemove1Sync", "RemoveSync", false, func(ctx context.Context, m *am.Machine, e *am.Event, s am.S) any {
			return b(amhelp.EvRemove1Sync(ctx, e, m, s[0], mark))
		}},
	}
}

// RunHelperListCase executes one Sync helper on one member list in one
// scenario on a fresh machine.
func RunHelperListCase(hf helperFn, sc ListScenario, list []ListMember, callDeadline time.Duration) ListLine {
	schema := am.Schema{"L1": {}, "L2": {}, "L3": {}, "D": {}, "Gate": {}}
	m := am.New(context.Background(), schema, &am.Opts{HandlerTimeout: time.Hour})
	h := &listHandlers{veto: map[string]bool{}, entered: make(chan struct{}), release: make(chan struct{})}
	m.HandlersBind(h)
	tr := &asyncTracer{TracerNoOp: &am.TracerNoOp{Id: "list"}, queued: make(chan struct{}),
		ended: make(chan struct{}), drained: make(chan struct{})}
	m.BindTracer(tr)
	defer m.Dispose()

	states := am.S{}
	var pre am.S
	for i, e := range list {
		states = append(states, listNames[i])
		if e.Pre {
			pre = append(pre, listNames[i])
		}
	}
	if len(pre) > 0 {
		m.Add(pre, nil)
	}
	h.mx.Lock()
	for i, e := range list {
		if e.Veto {
			h.veto[listNames[i]] = true
		}
	}
	h.mx.Unlock()
	read := func() []bool {
		out := make([]bool, len(states))
		for i, s := range states {
			out[i] = m.Is1(s)
		}
		return out
	}
	line := ListLine{Ev: "helpl", Fn: hf.name, Base: hf.base, Sc: sc, List: list, States: states,
		Before: read()}

	if sc.Disposed {
		m.Dispose()
		<-m.WhenDisposed()
	}
	if sc.Queued {
		go m.Add1("Gate", nil)
		<-h.entered
	}

	ctx, cancel := context.WithTimeout(context.Background(), callDeadline-500*time.Millisecond)
	defer cancel()
	res := make(chan any, 1)
	go func() {
		defer func() {
			if r := recover(); r != nil {
				res <- fmt.Sprint("panic: ", r)
			}
		}()
		res <- hf.call(ctx, m, nil, states)
	}()

	if sc.Queued {
		// the helper's mutation sits in the queue; an accepted mutation of a
		// state outside the list goes behind it, then the running handler ends
		select {
		case <-tr.queued:
		case <-time.After(2 * time.Second):
		}
		m.Add1("D", nil)
		close(h.release)
	}

	select {
	case v := <-res:
		switch v := v.(type) {
		case bool:
			line.Ret = fmt.Sprint(v)
		case string:
			line.Ret = v
		}
	case <-time.After(callDeadline):
		line.Ret = "blocked"
	}
	line.After = read()
	tr.mx.Lock()
	line.Acc = tr.isEnded && tr.accepted
	tr.mx.Unlock()
	return line
}

// RunHelperLists: every list entry point x {direct, queued, disposed} x every
// list of 1..maxList members over (active before, vetoing).
func RunHelperLists(o *Out, maxList int) {
	if maxList > len(listNames) {
		maxList = len(listNames)
	}
	type job struct {
		hf   helperFn
		sc   ListScenario
		list []ListMember
	}
	var jobs []job
	for fi, hf := range listHelperFns() {
		single := fi >= 4
		for n := 1; n <= maxList; n++ {
			if single && n > 1 {
				continue
			}
			for code := 0; code < 1<<(2*n); code++ {
				list := make([]ListMember, n)
				for i := range list {
					list[i] = ListMember{Pre: code>>(2*i)&1 != 0, Veto: code>>(2*i+1)&1 != 0}
				}
				for _, sc := range []ListScenario{{false, false}, {false, true}, {true, false}} {
					jobs = append(jobs, job{hf, sc, list})
				}
			}
		}
	}
	lines := make([]ListLine, len(jobs))
	sem := make(chan struct{}, 16)
	done := make(chan struct{}, len(jobs))
	for i, j := range jobs {
		sem <- struct{}{}
		go func(i int, j job) {
			lines[i] = RunHelperListCase(j.hf, j.sc, j.list, 3*time.Second)
			<-sem
			done <- struct{}{}
		}(i, j)
	}
	for range jobs {
		<-done
	}
	for _, l := range lines {
		o.Emit(l)
		o.Stats["helplist:"+l.Base]++
		if l.Ret == "blocked" {
			o.Stats["helplist-blocked"]++
		}
	}
}
