-------------------------------- MODULE Subs --------------------------------
(* Waiting on a machine: the subscription manager of pkg/machine              *)
(* (subscriptions.go) racing with the goroutine that runs transitions.        *)
(*                                                                            *)
(* The bookkeeping is modelled literally (per-binding States map, Matched /   *)
(* Total, Completed map, the clock map the manager reads - shared with the    *)
(* machine or a stale copy after SetSchema) because the property is about     *)
(* that bookkeeping.  A transition is two steps, exactly the window the       *)
(* verif hooks tx.applied / pq.beforeSubs expose:                             *)
(*   TxApply    setActiveStates under activeStatesMx + ProcessStateCtx        *)
(*   TxProcess  processSubscriptions (accepted, non-check transitions only)   *)
(* A subscriber may act before, in between, or after (subscribing takes       *)
(* activeStatesMx, so it never interleaves INSIDE one of the two steps).      *)
EXTENDS Naturals, Integers, Sequences, FiniteSets, TLC

CONSTANTS States,        \* set of state names
          MultiStates,   \* subset: Multi states (re-activation ticks +2)
          ClockAliased,  \* repaired SetSchema: the manager keeps reading the machine's clock
          QueryFixed,    \* repaired WhenQuery ctx handling (map initialised, right map cleaned)
          DisposeQuery,  \* repaired dispose: whenQuery channels are closed too
          ArgsReuseExact \* repaired WhenArgs: a channel is shared only by EQUAL requests
                         \* (pinned code: by any request whose args are a SUBSET of an
                         \* existing binding's, whatever its context)

VARIABLES active,     \* set of active states
          clock,      \* state -> tick (the machine's clock map)
          subClock,   \* the map the subscription manager reads
          aliased,    \* subClock IS the machine's map
          phase,      \* "idle" | "applied"
          pend,       \* the transition between TxApply and TxProcess
          binds,      \* sequence of binding records (index = id)
          sctx,       \* sequence of state-context records
          dead,       \* set of cancelled user context ids
          qtick,      \* queue tick
          disposed,
          crashed     \* a subscription call panicked (nil map write)

vars == <<active, clock, subClock, aliased, phase, pend, binds, sctx, dead, qtick,
          disposed, crashed>>

IsActive(t) == t % 2 = 1
SubClk == IF aliased THEN clock ELSE subClock

(* the built-in query predicates the harness uses (a query is a function of   *)
(* the manager's clock map)                                                   *)
QueryHolds(q, clk) ==
  CASE q.kind = "ge"     -> clk[q.state] >= q.n
    [] q.kind = "active" -> IsActive(clk[q.state])
    [] q.kind = "inactive" -> ~IsActive(clk[q.state])

Init ==
  /\ active = {} /\ clock = [s \in States |-> 0]
  /\ subClock = [s \in States |-> 0] /\ aliased = TRUE
  /\ phase = "idle" /\ pend = [kind |-> "none"]
  /\ binds = <<>> /\ sctx = <<>> /\ dead = {}
  /\ qtick = 1 /\ disposed = FALSE /\ crashed = FALSE

---------------------------------------------------------------------------
(* subscribing (subscriptions.go:571-891).  `ctx` = 0 for nil.  `should` is   *)
(* the ghost the property is about: the condition held when subscribing.      *)

NewBind(b) == binds' = Append(binds, b)

(* an existing binding whose channel the call hands out again                  *)
ReuseWhen(states, neg, ctx) ==
  {j \in 1..Len(binds) : /\ binds[j].live /\ binds[j].alias = 0
                          /\ binds[j].kind = (IF neg THEN "whennot" ELSE "when")
                          /\ binds[j].states = states /\ binds[j].ctx = ctx}

SubWhen(states, neg, ctx) ==
  /\ ~disposed /\ ~crashed
  /\ LET holds == IF neg THEN states \cap active = {} ELSE states \subseteq active
         expired == ctx # 0 /\ ctx \in dead
         stmap == [s \in states |-> s \in active]
         matched == Cardinality({s \in states : IF neg THEN s \notin active ELSE s \in active})
         reuse == IF holds \/ expired THEN {} ELSE ReuseWhen(states, neg, ctx)
     IN NewBind([kind |-> IF neg THEN "whennot" ELSE "when", states |-> states,
                 stmap |-> stmap, matched |-> matched, total |-> Cardinality(states),
                 ctx |-> ctx, closed |-> holds \/ expired, should |-> holds,
                 alias |-> IF reuse = {} THEN 0 ELSE CHOOSE j \in reuse : TRUE,
                 live |-> ~(holds \/ expired) /\ reuse = {}])
  /\ UNCHANGED <<active, clock, subClock, aliased, phase, pend, sctx, dead, qtick, disposed, crashed>>

(* WhenTime(states, times): reads the manager's clock                         *)
SubWhenTime(times, ctx) ==     \* times: function state -> target tick
  /\ ~disposed /\ ~crashed
  /\ LET sts == DOMAIN times
         passed == \A s \in sts : SubClk[s] >= times[s]
         truly == \A s \in sts : clock[s] >= times[s]
         expired == ctx # 0 /\ ctx \in dead
         completed == [s \in sts |-> SubClk[s] >= times[s]]
         \* the reuse look-up comes BEFORE the "already passed / expired" test
         reuse == {j \in 1..Len(binds) : /\ binds[j].live /\ binds[j].alias = 0
                                         /\ binds[j].kind = "whentime"
                                         /\ binds[j].times = times /\ binds[j].ctx = ctx}
     IN NewBind([kind |-> "whentime", times |-> times, completed |-> completed,
                 matched |-> Cardinality({s \in sts : completed[s]}), total |-> Cardinality(sts),
                 ctx |-> ctx, closed |-> passed \/ expired, should |-> truly,
                 alias |-> IF reuse = {} THEN 0 ELSE CHOOSE j \in reuse : TRUE,
                 live |-> ~(passed \/ expired) /\ reuse = {}])
  /\ UNCHANGED <<active, clock, subClock, aliased, phase, pend, sctx, dead, qtick, disposed, crashed>>

(* WhenQuery: never evaluated when subscribing ("from the next transition").  *)
(* Pinned code: whenQueryCtx is a nil map -> a live ctx makes the call panic. *)
SubWhenQuery(q, ctx) ==
  /\ ~disposed /\ ~crashed
  /\ IF ctx # 0 /\ ctx \in dead
     THEN NewBind([kind |-> "whenquery", q |-> q, ctx |-> ctx, closed |-> TRUE,
                   should |-> FALSE, alias |-> 0, live |-> FALSE]) /\ crashed' = crashed
     ELSE IF ctx # 0 /\ ~QueryFixed
     THEN crashed' = TRUE /\ binds' = binds
     ELSE NewBind([kind |-> "whenquery", q |-> q, ctx |-> ctx, closed |-> FALSE,
                   should |-> FALSE, alias |-> 0, live |-> TRUE]) /\ crashed' = crashed
  /\ UNCHANGED <<active, clock, subClock, aliased, phase, pend, sctx, dead, qtick, disposed>>

(* Machine.WhenQueue(tick): closed at once when the tick was processed        *)
SubWhenQueue(tick) ==
  /\ ~disposed /\ ~crashed
  /\ NewBind([kind |-> "whenqueue", tick |-> tick, ctx |-> 0, closed |-> qtick >= tick,
              should |-> qtick >= tick, alias |-> 0, live |-> ~(qtick >= tick)])
  /\ UNCHANGED <<active, clock, subClock, aliased, phase, pend, sctx, dead, qtick, disposed, crashed>>

(* WhenArgs(state, args, ctx) (subscriptions.go:693-741): closes when the      *)
(* state's final handler event (FooState) is emitted by a transition whose    *)
(* mutation args contain `args` (compareArgs: every requested key has the     *)
(* requested value).  args: a set of <<key, value>> pairs.                    *)
ArgsReuse(state, args, ctx) ==
  {j \in 1..Len(binds) :
     /\ binds[j].live /\ binds[j].alias = 0 /\ binds[j].kind = "whenargs"
     /\ binds[j].state = state
     /\ IF ArgsReuseExact THEN binds[j].args = args /\ binds[j].ctx = ctx
        ELSE args \subseteq binds[j].args}

SubWhenArgs(state, args, ctx) ==
  /\ ~disposed /\ ~crashed
  /\ LET expired == ctx # 0 /\ ctx \in dead
         reuse == IF expired THEN {} ELSE ArgsReuse(state, args, ctx)
     IN NewBind([kind |-> "whenargs", state |-> state, args |-> args, ctx |-> ctx,
                 closed |-> expired, should |-> FALSE,
                 alias |-> IF reuse = {} THEN 0 ELSE CHOOSE j \in reuse : \A k \in reuse : j <= k,
                 live |-> ~expired /\ reuse = {}])
  /\ UNCHANGED <<active, clock, subClock, aliased, phase, pend, sctx, dead, qtick, disposed, crashed>>

(* Machine.WhenQueueEnds (machine.go:682-694): closed at once unless the queue *)
(* is being processed; otherwise closed when this drain ends                   *)
SubWhenQueueEnds ==
  /\ ~disposed /\ ~crashed
  /\ NewBind([kind |-> "whenqueueends", ctx |-> 0, closed |-> phase = "idle",
              should |-> phase = "idle", alias |-> 0, live |-> phase # "idle"])
  /\ UNCHANGED <<active, clock, subClock, aliased, phase, pend, sctx, dead, qtick, disposed, crashed>>

(* WhenTicks(state, n) = WhenTime(state, Tick(state) + n); WhenNextActive =    *)
(* WhenTicks(state, NextActiveIn(tick)): 2 when active, 1 when not             *)
SubWhenTicks(s, n, ctx) == SubWhenTime([x \in {s} |-> clock[s] + n], ctx)
SubWhenNextActive(s, ctx) == SubWhenTicks(s, IF IsActive(clock[s]) THEN 2 ELSE 1, ctx)

(* NewStateCtx: one context per state is kept and handed out again            *)
SubStateCtx(s) ==
  /\ ~disposed /\ ~crashed
  /\ IF \E i \in 1..Len(sctx) : sctx[i].state = s /\ sctx[i].indexed
     THEN LET i == CHOOSE j \in 1..Len(sctx) : sctx[j].state = s /\ sctx[j].indexed
          IN sctx' = Append(sctx, [sctx[i] EXCEPT !.alias = i, !.indexed = FALSE])
     ELSE sctx' = Append(sctx, [state |-> s, tick |-> clock[s], canceled |-> FALSE,
                                indexed |-> TRUE, alias |-> 0])
  /\ UNCHANGED <<active, clock, subClock, aliased, phase, pend, binds, dead, qtick, disposed, crashed>>

CtxCancel(c) ==
  /\ c \notin dead /\ dead' = dead \cup {c}
  /\ UNCHANGED <<active, clock, subClock, aliased, phase, pend, binds, sctx, qtick, disposed, crashed>>

---------------------------------------------------------------------------
(* a transition.  tx = [accepted, check, activated, deactivated, newActive,   *)
(* newClock, ticked (has a queue tick)]                                       *)

TxApply(tx) ==
  /\ phase = "idle" /\ ~disposed
  /\ phase' = "applied"
  /\ pend' = [kind |-> "tx", tx |-> tx, before |-> clock]
  /\ qtick' = IF tx.ticked THEN qtick + 1 ELSE qtick
  /\ IF tx.accepted /\ ~tx.check
     THEN /\ active' = tx.newActive /\ clock' = tx.newClock
          \* ProcessStateCtx(activated, deactivated): cancel and drop the index
          /\ sctx' = [i \in 1..Len(sctx) |->
                       IF sctx[i].indexed /\ sctx[i].state \in (tx.activated \cup tx.deactivated)
                       THEN [sctx[i] EXCEPT !.canceled = TRUE, !.indexed = FALSE]
                       ELSE sctx[i]]
     ELSE UNCHANGED <<active, clock, sctx>>
  \* ProcessWhenArgs runs at the end of EVERY handler event that was not
  \* vetoed, the negotiation ones included: bindings whose context ended are
  \* collected before the transition is applied.  (A canceled transition
  \* collects them only if an event completed before the vetoed one; the
  \* harness vetoes the first event, the property tolerates either.)
  /\ binds' = [i \in 1..Len(binds) |->
                IF tx.accepted /\ binds[i].kind = "whenargs" /\ binds[i].live
                   /\ binds[i].ctx # 0 /\ binds[i].ctx \in dead
                THEN [binds[i] EXCEPT !.closed = TRUE, !.live = FALSE] ELSE binds[i]]
  /\ UNCHANGED <<subClock, aliased, dead, disposed, crashed>>

ArgsMatch(b, tx) ==
  /\ "activated" \in DOMAIN tx /\ tx.accepted /\ ~tx.check
  /\ b.state \in tx.activated /\ b.args \subseteq tx.args

(* one binding through ProcessWhen / ProcessWhenTime / ProcessWhenQueue /     *)
(* ProcessWhenQuery; returns the updated record                               *)
ProcBind(b, tx, before) ==
  LET expired == b.ctx # 0 /\ b.ctx \in dead
  IN IF ~b.live THEN b
     ELSE IF b.kind \in {"when", "whennot"} THEN
       LET touched == b.states \cap (tx.activated \cup tx.deactivated)
           \* walk activated then deactivated, as the code does
           upd(s, acc) ==
             IF s \in tx.activated
             THEN [stmap |-> [acc.stmap EXCEPT ![s] = TRUE],
                   matched |-> IF acc.stmap[s] THEN acc.matched
                               ELSE IF b.kind = "when" THEN acc.matched + 1 ELSE acc.matched - 1]
             ELSE [stmap |-> [acc.stmap EXCEPT ![s] = FALSE],
                   matched |-> IF ~acc.stmap[s] THEN acc.matched
                               ELSE IF b.kind = "when" THEN acc.matched - 1 ELSE acc.matched + 1]
           RECURSIVE Fold(_, _)
           Fold(S, acc) == IF S = {} THEN acc
                           ELSE LET s == CHOOSE x \in S : TRUE IN Fold(S \ {s}, upd(s, acc))
           r == Fold(touched, [stmap |-> b.stmap, matched |-> b.matched])
           done == (touched # {} /\ r.matched >= b.total) \/ expired
       IN [b EXCEPT !.stmap = r.stmap, !.matched = r.matched,
                    !.closed = done, !.live = ~done]
     ELSE IF b.kind = "whentime" THEN
       LET sts == DOMAIN b.times
           ticked == {s \in sts : SubClk[s] # before[s]}
           newly == {s \in ticked : ~b.completed[s] /\ SubClk[s] >= b.times[s]}
           m2 == b.matched + Cardinality(newly)
           done == (ticked # {} /\ m2 >= b.total) \/ expired
       IN [b EXCEPT !.completed = [s \in sts |-> b.completed[s] \/ s \in newly],
                    !.matched = m2, !.closed = done, !.live = ~done]
     ELSE IF b.kind = "whenqueue" THEN
       IF b.tick <= qtick THEN [b EXCEPT !.closed = TRUE, !.live = FALSE] ELSE b
     ELSE IF b.kind = "whenargs" THEN
       \* ProcessWhenArgs(e) runs with every handler event; e.Name = FooState for
       \* the states the transition activates
       IF ArgsMatch(b, tx) \/ expired
       THEN [b EXCEPT !.closed = TRUE, !.live = FALSE] ELSE b
     ELSE IF b.kind = "whenqueueends" THEN
       [b EXCEPT !.closed = TRUE, !.live = FALSE]
     ELSE \* whenquery
       IF QueryHolds(b.q, SubClk) \/ expired
       THEN [b EXCEPT !.closed = TRUE, !.live = FALSE] ELSE b

(* what the property demands of a binding after this transition               *)
ShouldAfter(b, tx) ==
  b.should \/
  (IF b.kind = "when" THEN b.states \subseteq active
   ELSE IF b.kind = "whennot" THEN b.states \cap active = {}
   ELSE IF b.kind = "whentime" THEN \A s \in DOMAIN b.times : clock[s] >= b.times[s]
   ELSE IF b.kind = "whenqueue" THEN qtick >= b.tick
   ELSE IF b.kind = "whenargs" THEN ArgsMatch(b, tx)
   ELSE IF b.kind = "whenqueueends" THEN "activated" \in DOMAIN tx   \* a transition ended, the drain with it
   ELSE QueryHolds(b.q, clock))
  \/ (b.ctx # 0 /\ b.ctx \in dead)

TxProcess ==
  /\ phase = "applied"
  /\ phase' = "idle" /\ pend' = [kind |-> "none"]
  /\ LET tx == pend.tx IN
     IF tx.accepted /\ ~tx.check
     THEN binds' = [i \in 1..Len(binds) |->
                     [ProcBind(binds[i], tx, pend.before) EXCEPT !.should = ShouldAfter(binds[i], tx)]]
     ELSE \* canceled / check: only WhenQueue is looked at (repaired code, fix C04)
          binds' = [i \in 1..Len(binds) |->
                     IF binds[i].kind = "whenqueue" /\ ~tx.check
                     THEN [ProcBind(binds[i], tx, pend.before)
                             EXCEPT !.should = binds[i].should \/ qtick >= binds[i].tick]
                     ELSE IF binds[i].kind = "whenqueueends"
                     THEN [ProcBind(binds[i], tx, pend.before) EXCEPT !.should = TRUE]
                     ELSE binds[i]]
  /\ UNCHANGED <<active, clock, subClock, aliased, sctx, dead, qtick, disposed, crashed>>

(* SetSchema (machine.go:3176-3223): m.subs.SetClock(m.Clock(nil)) hands the  *)
(* manager a COPY; the repaired code keeps the alias.                         *)
SetSchema ==
  /\ phase = "idle" /\ ~disposed
  /\ IF ClockAliased THEN UNCHANGED <<subClock, aliased>>
     ELSE subClock' = clock /\ aliased' = FALSE
  /\ UNCHANGED <<active, clock, phase, pend, binds, sctx, dead, qtick, disposed, crashed>>

(* Dispose: every channel closed, every state context cancelled               *)
Dispose ==
  /\ phase = "idle" /\ ~disposed
  /\ disposed' = TRUE
  /\ binds' = [i \in 1..Len(binds) |->
                IF binds[i].kind = "whenquery" /\ ~DisposeQuery THEN binds[i]
                ELSE [binds[i] EXCEPT !.closed = TRUE, !.live = FALSE]]
  /\ sctx' = [i \in 1..Len(sctx) |-> [sctx[i] EXCEPT !.canceled = TRUE]]
  /\ UNCHANGED <<active, clock, subClock, aliased, phase, pend, dead, qtick, crashed>>

---------------------------------------------------------------------------
(* C06 *)
(* no lost and no spurious wake-up: at every quiescent point a channel is     *)
(* closed exactly when the property says it should be                         *)
ClosedOf(i) == IF binds[i].alias = 0 THEN binds[i].closed ELSE binds[binds[i].alias].closed

(* a channel handed out for an already ended context may be closed at once    *)
(* or at the next processed transition - both are accepted                    *)
CtxDead(i) == binds[i].ctx # 0 /\ binds[i].ctx \in dead

ClosedIff ==
  phase = "idle" =>
    \A i \in 1..Len(binds) :
       /\ (binds[i].should \/ disposed) => ClosedOf(i)
       /\ ClosedOf(i) => (binds[i].should \/ disposed \/ CtxDead(i))

(* a closed channel never reopens, Matched never leaves 0..Total              *)
Sane == \A i \in 1..Len(binds) :
          ("matched" \in DOMAIN binds[i]) => (binds[i].matched >= 0 /\ binds[i].matched <= binds[i].total)

(* a state context is cancelled exactly when its state's tick has changed     *)
(* since it was created (a re-used context counts from its first creation)    *)
CtxOrigin(i) == IF sctx[i].alias = 0 THEN i ELSE sctx[i].alias
StateCtxIff ==
  \A i \in 1..Len(sctx) :
     LET o == CtxOrigin(i) IN
     (sctx[o].canceled \/ disposed) <=> (clock[sctx[o].state] # sctx[o].tick \/ disposed)

NeverPanics == ~crashed
=============================================================================
