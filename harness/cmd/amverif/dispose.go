package main

import (
	"bufio"
	"encoding/json"
	"flag"
	"fmt"
	"os"
	"sync"

	"verifharness/dispdrv"
)

func init() { commands["dispose"] = cmdDispose }

func cmdDispose(args []string) int {
	fs := flag.NewFlagSet("dispose", flag.ExitOnError)
	out := fs.String("out", "disp", "output prefix")
	reps := fs.Int("reps", 1, "repetitions of every scenario")
	fs.Parse(args)
	var scs []dispdrv.Scenario
	for _, landing := range []string{"idle", "queue", "queueLong", "negotiation", "final", "eval", "evalQueued", "fromHandler", "fromFinal", "subsCollect"} {
		for _, how := range []string{"dispose", "force", "ctx", "twice", "disposeThenForce"} {
			for _, h := range []bool{true, false} {
				if !h && (landing == "negotiation" || landing == "final" || landing == "evalQueued" || landing == "fromHandler" || landing == "fromFinal") {
					continue
				}
				for _, sub := range []bool{true, false} {
					for r := 0; r < *reps; r++ {
						scs = append(scs, dispdrv.Scenario{Landing: landing, How: how, Handlers: h, Subs: sub})
						if h && (landing == "idle" || landing == "eval") {
							scs = append(scs, dispdrv.Scenario{Landing: landing, How: how, Handlers: h, Subs: sub, Detach: true})
						}
					}
				}
			}
		}
	}
	res := make([][]any, len(scs))
	var wg sync.WaitGroup
	sem := make(chan struct{}, 32)
	for i := range scs {
		wg.Add(1)
		sem <- struct{}{}
		go func(i int) {
			defer wg.Done()
			defer func() { <-sem }()
			res[i] = dispdrv.Run(scs[i])
		}(i)
	}
	wg.Wait()
	f, _ := os.Create(*out + ".0.ndjson")
	w := bufio.NewWriter(f)
	enc := json.NewEncoder(w)
	n := 0
	for _, ls := range res {
		for _, l := range ls {
			enc.Encode(l)
			n++
		}
	}
	w.Flush()
	f.Close()
	fmt.Printf("{\"scenarios\":%d,\"lines\":%d}\n", len(scs), n)
	return 0
}
