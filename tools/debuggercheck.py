#!/usr/bin/env python3
"""C16 - the debugger shows each transition as it happened and navigates
consistently.

design half   TLC explores spec/MCDebugger.tla:
                * "derive" model: every stream of <= N records over 2..3 states
                  (tick deltas, queue tick advancing or not, steps): the
                  transcription of hParseMsg/GetTransitionStates equals the
                  declarative derivation from consecutive records, the
                  transcribed binary searches equal the linear scans; a
                  NonMono run shows the look-up formulas depend on the
                  monotonicity a machine guarantees (sensitivity)
                * "cursor" model: streams of record kinds x command sequences
                  from every reachable cursor position, with the repaired flags
                  (FilterSound, FwdBackIdentity, NoPanic must hold) and as the
                  code is (the violations TLC finds are PREDICTIONS); jumps by
                  transition id to records held, still to come or never coming
                * "lookup" model: a store that GROWS between look-ups of the
                  same key, the per-client id cache as a variable; a run with a
                  cache that remembers misses must fail (sensitivity)
                * "filter" model: every kind of record (auto x queued x canceled
                  x check, executor accepted / canceled / missing, empty, health)
                  x every set of filter states: the transcription of hFilterTx's
                  else-if chain equals its declarative meaning
binding half  harness/dbgdrv drives a REAL headless am-dbg (tcell simulation
              screen):
                (a) real telemetry of generated machines (pkg/telemetry/dbg,
                    captured from the wire) fed through the ConnectEvent /
                    ClientMsg states in batches with commands in between, and
                    several machines concurrently over loopback TCP through the
                    real RPC server; the source machines carry a recording
                    tracer (RecordFaithful); export -> import into a fresh
                    debugger (ExportImportIdentity)
                (b) the pure look-up functions of server.Client over generated
                    record lists, and over one list that grows between look-ups
                    of the same key (function level)
                (c) TLC-generated behaviours (record kinds + Fwd/Back/ScrollToTx/
                    filter toggles/tail) replayed through the debugger machine's
                    states, Debugger.C compared after every step
                (d) the filter matrix: a client that holds every kind of record,
                    a walk of ToggleTool commands through every reachable set of
                    filter states
              every run is logged as ndjson and validated by TLC against
              spec/TraceDebugger.tla: the property formulas are evaluated on
              the LOGGED values (verdict), the specification's own step on the
              previous logged values (drift).
"""
import concurrent.futures as cf
import glob, json, os, shutil, sys, time
from collections import Counter

sys.path.insert(0, os.path.dirname(os.path.abspath(__file__)))
import tlcrun
from common import *

PROP = "C16"
# the specification as the code is / with the three modelled defects repaired
# the tree carries the NextBounded and ChecksInGroup repairs (fix: C16)
CODE = dict(ChecksInGroup=True, Refilter=False, NextBounded=True, CacheMisses=False)
FIXED = dict(ChecksInGroup=True, Refilter=True, NextBounded=True, CacheMisses=False)
GROUP_FILTERS = {"FilterAutoTx", "FilterCanceledTx", "FilterEmptyTx", "FilterHealth",
                 "FilterOutGroup", "FilterQueuedTx", "FilterAutoCanceledTx"}

MC_BASE = dict(Model="derive", NStates=2, MaxRecs=3, Deltas="<-D012", NonMono=False, MaxCmds=0,
               Kinds="<-NoKinds", Tools="<-NoKinds", Emit=False, ShardMod=1, ShardIdx=0,
               InitF="<-InitFDefault", Attack="none")

DERIVE_INV = ["Inv_DerivedConsistent", "Inv_LookupEqualsScan", "Inv_ModelMonotone"]
CURSOR_INV = ["Inv_FilterSound", "Inv_FilteredSound", "Inv_FwdBackIdentity", "Inv_CursorRange",
              "Inv_NoPanic", "Inv_TxIndexEqualsScan", "Inv_CacheSound"]
LOOKUP_INV = ["Inv_TxIndexEqualsScan", "Inv_CacheSound", "Inv_LookupEqualsScan"]
FILTER_INV = ["Inv_FilterTxEqualsPass", "Inv_RefilteredExact"]


def mc_plan(tier):
    """-> derive, cursor, lookup, filter plans: (label, constants, timeout)"""
    d, c = [], []
    if tier == "quick":
        l = [("lookup: store grows, <=4 records, <=4 look-ups of ids held / to come / never coming",
              dict(Model="lookup", MaxRecs=4, MaxCmds=4), 100)]
        f = [("filter: every kind of record x every set of filters, <=2 records",
              dict(Model="filter", MaxRecs=2), 100)]
    else:
        l = [("lookup: store grows, <=5 records, <=5 look-ups of ids held / to come / never coming",
              dict(Model="lookup", MaxRecs=5, MaxCmds=5), 900)]
        f = [("filter: every kind of record x every set of filters, <=3 records",
              dict(Model="filter", MaxRecs=3), 900)]
    if tier == "quick":
        d += [("derive 2 states, <=3 records, deltas 0..2", dict(NStates=2, MaxRecs=3), 100),
              ("derive 2 states, <=4 records, deltas 0..1", dict(NStates=2, MaxRecs=4, Deltas="<-D01"), 100),
              ("derive 3 states, <=3 records, deltas 0..1", dict(NStates=3, MaxRecs=3, Deltas="<-D01"), 100)]
        c += [("cursor core kinds, <=3 records, <=3 commands",
               dict(Model="cursor", MaxRecs=3, MaxCmds=3, Kinds="<-KindsCore", Tools="<-ToolsCore"), 100),
              ("cursor queued/auto/canceled kinds and filters + jumps by transition id (held / to come), "
               "<=3 records, <=3 commands",
               dict(Model="cursor", MaxRecs=3, MaxCmds=3, Kinds="<-KindsQueue", Tools="<-ToolsQueueId"), 100)]
    else:
        d += [("derive 2 states, <=4 records, deltas 0..2", dict(NStates=2, MaxRecs=4), 900),
              ("derive 2 states, <=6 records, deltas 0..1", dict(NStates=2, MaxRecs=6, Deltas="<-D01"), 900),
              ("derive 3 states, <=4 records, deltas 0..1", dict(NStates=3, MaxRecs=4, Deltas="<-D01"), 900),
              ("derive 3 states, <=3 records, deltas 0..2", dict(NStates=3, MaxRecs=3), 900)]
        c += [("cursor all kinds, <=4 records, <=4 commands, core tools",
               dict(Model="cursor", MaxRecs=4, MaxCmds=4, Kinds="<-KindsAll", Tools="<-ToolsCore"), 900),
              ("cursor core kinds, <=3 records, <=4 commands, all tools",
               dict(Model="cursor", MaxRecs=3, MaxCmds=4, Kinds="<-KindsCore", Tools="<-ToolsAll"), 900),
              ("cursor queued/auto/canceled kinds and filters + jumps by transition id (held / to come), "
               "<=4 records, <=4 commands",
               dict(Model="cursor", MaxRecs=4, MaxCmds=4, Kinds="<-KindsQueue", Tools="<-ToolsQueueId"), 900),
              ("cursor jumps by transition id (held / to come), <=4 records, <=5 commands",
               dict(Model="cursor", MaxRecs=4, MaxCmds=5, Kinds="<-KindsId", Tools="<-ToolsId",
                    InitF="<-InitFChecks"), 900)]
    return d, c, l, f


def tlc_mc(consts, invariants, timeout, workers=8):
    return tlcrun.run_tlc("MCDebugger", dict(spec="MCSpec", consts=consts, invariants=invariants),
                          workers=workers, timeout=timeout)


def run_mc(tier, rep):
    d, c, lk, fl = mc_plan(tier)
    jobs = []
    for label, over, to in d:
        jobs.append((label, dict(MC_BASE, **FIXED, **over), DERIVE_INV, "hold", to))
    for label, over, to in lk:
        jobs.append((label, dict(MC_BASE, **FIXED, **over), LOOKUP_INV, "hold", to))
    if tier != "quick":
        # (quick: the attack run of the binding half, which asks TLC for a miss / ingest / hit
        # schedule of the model with such a cache, is the sensitivity run)
        jobs.append(("lookup with a cache that REMEMBERS MISSES (sensitivity)",
                     dict(MC_BASE, **dict(FIXED, CacheMisses=True), Model="lookup", MaxRecs=2, MaxCmds=2),
                     ["Inv_TxIndexEqualsScan"], "violate", 100))
    for label, over, to in fl:
        jobs.append((label, dict(MC_BASE, **FIXED, **over), FILTER_INV, "hold", to))
    jobs.append(("derive NON-monotone streams (sensitivity)", dict(MC_BASE, **FIXED, NonMono=True, MaxRecs=3),
                 ["Inv_LookupEqualsScanAlways"], "violate", 100))
    for label, over, to in c:
        jobs.append((label + " [repaired]", dict(MC_BASE, **FIXED, **over), CURSOR_INV, "hold", to))
    # as the code is: what TLC finds here is a prediction, confirmed or not by the binding half
    pred = dict(Model="cursor", MaxRecs=3, MaxCmds=3, Kinds="<-KindsMin", Tools="<-ToolsMin",
                InitF="<-InitFNoGroup")
    for inv in ("Inv_FilterSound", "Inv_NoPanic"):
        jobs.append(("cursor as the code is: " + inv, dict(MC_BASE, **CODE, **pred), [inv], "predict", 100))
    nw = max(2, 16 // len(jobs))
    with cf.ThreadPoolExecutor(max_workers=len(jobs)) as ex:
        res = list(ex.map(lambda j: tlc_mc(j[1], j[2], j[4], workers=nw), jobs))
    runs, states, trans, predicted = [], 0, 0, []
    for (label, consts, invs, expect, to), r in zip(jobs, res):
        runs.append(dict(config=label, states_generated=r["states"], distinct=r["distinct"],
                         wall_s=round(r["wall"], 1), violated=sorted(r["violated"]), expect=expect,
                         timed_out=r["timed_out"]))
        if r["errors"] and not r["timed_out"]:
            raise Inconclusive("TLC error in '%s': %s\n%s" % (label, r["errors"][:3], r["out"][-2500:]))
        if r["timed_out"]:
            raise Inconclusive("TLC timed out in '%s'" % label)
        if expect == "hold" and r["violated"]:
            raise Inconclusive("specification violates %s in '%s':\n%s" % (
                sorted(r["violated"]), label, r["out"][-3000:]))
        if expect == "violate" and not r["violated"]:
            raise Inconclusive("model lost its sensitivity: '%s' found no violation" % label)
        if expect == "predict" and r["violated"]:
            predicted += sorted(r["violated"])
        if expect == "hold":
            states += r["distinct"]
            trans += r["states"]
    rep.coverage["mc_runs"] = runs
    rep.coverage["states"] = states
    rep.coverage["transitions"] = trans
    rep.coverage["predicted_by_model_of_code"] = sorted(set(predicted))


# ---------------------------------------------------------------------------
# B2: TLC emits behaviours

def emit_plan(tier, sd):
    """(label, initf name, constants, timeout): every behaviour of the model of the
    code within the constants, one shard of them chosen by the seed"""
    def sh(m):
        return dict(ShardMod=m, ShardIdx=sd % m)
    if tier == "quick":
        return [("default", "default", dict(MaxRecs=3, MaxCmds=2, Kinds="<-KindsMin", Tools="<-ToolsMin",
                                            InitF="<-InitFDefault", **sh(18)), 100),
                ("checks", "checks", dict(MaxRecs=2, MaxCmds=3, Kinds="<-KindsCk", Tools="<-ToolsCk",
                                          InitF="<-InitFChecks", **sh(8)), 100),
                # the filters that interact on queued / auto / canceled records; jumps by
                # transition id to records held / still to come
                ("queue", "default", dict(MaxRecs=3, MaxCmds=2, Kinds="<-KindsQueue", Tools="<-ToolsQueueId",
                                          InitF="<-InitFDefault", **sh(200)), 100)]
    return [("default", "default", dict(MaxRecs=3, MaxCmds=3, Kinds="<-KindsCore", Tools="<-ToolsMin",
                                        InitF="<-InitFDefault", **sh(64)), 900),
            ("nogroup", "nogroup", dict(MaxRecs=3, MaxCmds=3, Kinds="<-KindsMin", Tools="<-ToolsCore",
                                        InitF="<-InitFNoGroup", **sh(32)), 900),
            ("checks", "checks", dict(MaxRecs=3, MaxCmds=4, Kinds="<-KindsCk", Tools="<-ToolsCk",
                                      InitF="<-InitFChecks", **sh(64)), 900),
            ("queue", "default", dict(MaxRecs=3, MaxCmds=3, Kinds="<-KindsQueue", Tools="<-ToolsQueueId",
                                      InitF="<-InitFDefault", **sh(400)), 900),
            ("ids", "checks", dict(MaxRecs=4, MaxCmds=3, Kinds="<-KindsId", Tools="<-ToolsId",
                                   InitF="<-InitFChecks", **sh(128)), 900)]


def attack_plan():
    """B3: (label, initf name, flags of the model, formula): the model of the code
    with ONE protection missing; TLC's counterexamples are schedules for the
    real debugger.  A model state whose handler panics is a dead end, so the
    schedules avoid the panic unless it is the target."""
    base = dict(MaxRecs=3, MaxCmds=4, Kinds="<-KindsMin", Tools="<-ToolsMin")
    return [
        ("FilterChecks outside the group that filtersActive() reads", "checks",
         dict(base, ChecksInGroup=False, Refilter=True, NextBounded=False, InitF="<-InitFChecks",
              Kinds="<-KindsCk", Tools="<-ToolsCk", Attack="FilterSound")),
        ("incremental filtering of queued auto mutations", "default",
         dict(base, ChecksInGroup=True, Refilter=False, NextBounded=False, InitF="<-InitFDefault",
              Attack="FilterSound")),
        ("unbounded next-transition index", "nogroup",
         dict(base, ChecksInGroup=False, Refilter=False, NextBounded=False, InitF="<-InitFNoGroup",
              Attack="NoPanic")),
        ("TxIndex caches only what the scan found (a miss is scanned for again)", "checks",
         dict(base, ChecksInGroup=True, Refilter=False, NextBounded=True, CacheMisses=True,
              InitF="<-InitFChecks", Kinds="<-KindsId", Tools="<-ToolsId", Attack="TxIndex")),
    ]


def parse_seqs(out):
    seqs = set()
    for line in out.splitlines():
        if line.startswith('<<"SEQ", "'):
            s = line[len('<<"SEQ", "'):-3]
            seqs.add(s.replace('\\\\', '\x00').replace('\\"', '"').replace('\x00', '\\'))
    return sorted(seqs)


def attacks(d):
    """-> list of (initf, seq file, label, nseq)"""
    out = []
    jobs = attack_plan()

    def one(j):
        label, initf, consts = j
        c = dict(MC_BASE, Model="cursor", Emit=True, CacheMisses=False)
        c.update(consts)
        return tlcrun.run_tlc("MCDebugger", dict(spec="MCSpec", consts=c, invariants=["AttackInv"]),
                              workers=1, timeout=200)
    with cf.ThreadPoolExecutor(max_workers=len(jobs)) as ex:
        res = list(ex.map(one, jobs))
    for k, ((label, initf, consts), r) in enumerate(zip(jobs, res)):
        if r["timed_out"] or [e for e in r["errors"] if "AttackInv" not in e]:
            raise Inconclusive("TLC attack run failed (%s): %s\n%s" % (label, r["errors"][:2], r["out"][-2000:]))
        seqs = parse_seqs(r["out"])
        if not seqs and consts.get("CacheMisses"):
            raise Inconclusive("model lost its sensitivity: a TxIndex cache that remembers misses breaks no formula")
        # shortest schedules first, a handful is enough
        seqs.sort(key=lambda s: (len(json.loads(s)), s))
        seqs = seqs[:12]
        path = os.path.join(d, "attack-%d.ndjson" % k)
        with open(path, "w") as f:
            for s in seqs:
                f.write(s + "\n")
        out.append((initf, path, label, len(seqs)))
    return out


INITF_FLAG = {"default": "default", "nogroup": "nogroup", "checks": "checks"}


def emit(consts, timeout, path):
    c = dict(MC_BASE, **CODE, Model="cursor", Emit=True)
    c.update(consts)
    r = tlcrun.run_tlc("MCDebugger", dict(spec="MCSpec", consts=c, invariants=["EmitInv"]),
                       workers=1, timeout=timeout)
    if r["errors"] or r["timed_out"] or r["violated"]:
        raise Inconclusive("TLC emission failed: %s %s\n%s" % (r["errors"][:2], r["violated"], r["out"][-2000:]))
    seqs = parse_seqs(r["out"])
    with open(path, "w") as f:
        for s in sorted(seqs):
            f.write(s + "\n")
    return len(seqs), r["distinct"]


# ---------------------------------------------------------------------------
# trace validation

def validate(files):
    def one(tf):
        r = tlcrun.run_tlc("TraceDebugger",
                           dict(spec="TraceSpec", consts=dict(CODE, TraceFile="trace.ndjson"), view="TraceView"),
                           workers=1, timeout=3000, files={tf: "trace.ndjson"}, java_opts="-Xss64m")
        return dict(file=tf, result=tlcrun.parse_result(r["out"]), out=r["out"], rc=r["rc"])
    with cf.ThreadPoolExecutor(max_workers=16) as ex:
        return list(ex.map(one, files))


def case_of(path, lineno):
    """The lines of the case that contains line `lineno` (from its open line on)."""
    lines, start = [], 0
    with open(path) as f:
        for i, l in enumerate(f, 1):
            if i > lineno:
                break
            if l.startswith('{"case"') or '"ev":"open"' in l[:300]:
                x = json.loads(l)
                if x.get("ev") == "open":
                    lines, start = [], i
            lines.append(json.loads(l))
    return lines


def classify(formula, lines):
    """A stable signature for a violating line (the last one of `lines`)."""
    x = lines[-1]
    sig = dict(formula=formula)
    view = x.get("view") or {}
    filters = set(view.get("filters", []))
    recs = []
    for l in lines:
        if l.get("ev") == "ingest" and l.get("recs"):
            recs = l["recs"]
    if formula == "NoPanic":
        err = x.get("err", "")
        sig["error"] = "index out of range" if "index out of range" in err else (err[:60] or "hung")
    elif formula == "FilterSound":
        cur = view.get("cursor", 0)
        rec = recs[cur - 1] if 0 < cur <= len(recs) else {}
        if not (filters & GROUP_FILTERS) and "FilterChecks" in filters and rec.get("check"):
            sig["cause"] = "FilterChecks-outside-filter-group"
        elif rec.get("queued") and rec.get("auto") and "FilterAutoCanceledTx" in filters:
            sig["cause"] = "queued-auto-mutation-canceled-later"
        else:
            sig["cause"] = "other"
            sig["record"] = {k: rec.get(k) for k in ("queued", "auto", "check", "acc")}
            sig["filters"] = sorted(filters)
    elif formula == "FilteredSound":
        # the first listed record that an active filter names by one of its own flags
        sig["cause"] = "other"
        for idx in view.get("filtered", []):
            rec = recs[idx] if idx < len(recs) else {}
            by = [f for f, hit in (("FilterAutoTx", rec.get("auto")),
                                   ("FilterAutoCanceledTx", rec.get("auto") and not rec.get("acc")),
                                   ("FilterCanceledTx", not rec.get("acc", True)),
                                   ("FilterQueuedTx", rec.get("queued")),
                                   ("FilterChecks", rec.get("check"))) if hit and f in filters]
            if by:
                sig["cause"] = "listed-record-named-by-an-active-filter"
                sig["hidden_by"] = by
                sig["record"] = {k: rec.get(k) for k in ("queued", "auto", "check", "acc")}
                break
    return sig


def replay_obj(kind, lines, extra):
    o = dict(kind=kind, property=PROP)
    o.update(extra)
    if kind == "kinds":
        seq = []
        for l in lines[1:]:
            if l["ev"] == "ingest":
                seq.append(dict(a="ingest", kind=l.get("kind", "")))
            elif l["ev"] == "cmd":
                seq.append(dict(a="cmd", cmd=l["cmd"]))
        o["seq"] = seq
    o["label"] = lines[0].get("case") if lines else ""
    return o


def judge(res, rep, meta, stats):
    """meta: file -> dict(kind, extra).  One violation is reported per distinct
    signature (the first case that shows it); all of them are counted."""
    seen = set()
    for r in res:
        if r["result"] is None:
            raise Inconclusive("trace validation did not finish for %s (rc=%s):\n%s" % (
                r["file"], r["rc"], r["out"][-3000:]))
        R = r["result"]
        nl = sum(1 for _ in open(r["file"]))
        if R["lines"] != nl:
            raise Inconclusive("trace %s not fully consumed" % r["file"])
        stats["lines"] += nl
        for k, v in R["cnt"].items():
            stats["cnt"][k] += v
        m = meta[r["file"]]
        for l, f in R["viol"]:
            lines = case_of(r["file"], l) if m["kind"] != "lookup" else [tlcrun.line_of(r["file"], l)]
            sig = classify(f, lines)
            stats["viol"][f] += 1
            key = json.dumps(sig, sort_keys=True)
            stats["sigs"][key] += 1
            if key in seen:
                continue
            seen.add(key)
            obj = replay_obj(m["kind"], lines, m["extra"])
            obj["formula"] = f
            if m["kind"] == "lookup":
                obj["line"] = lines[-1]
            last = dict(lines[-1])
            for k in ("recs", "parsed", "lk"):
                last.pop(k, None)
            rep.violation(sig, obj, "formula %s false on what the real debugger did (%s, case %s): %s" % (
                f, m["kind"], obj.get("label"), json.dumps(last)[:400]))
        for l, f in R["drift"]:
            rep.drift.append("%s line %d: %s" % (os.path.basename(r["file"]), l, f))


# ---------------------------------------------------------------------------

def merge(files, k):
    """Concatenate shards (cases are self-contained) into at most k files: one
    TLC process per file."""
    if len(files) <= k:
        return files
    out = []
    for i in range(k):
        grp = files[i::k]
        with open(grp[0], "ab") as dst:
            for fn in grp[1:]:
                with open(fn, "rb") as src:
                    shutil.copyfileobj(src, dst)
                os.remove(fn)
        out.append(grp[0])
    return out


def driver(binary, args, timeout=3000):
    rc, out = run([binary, "dbg"] + args, timeout=timeout)
    if rc != 0:
        raise Inconclusive("dbg driver failed (%s): %s" % (" ".join(args[:4]), out[-2500:]))
    return json.loads(out.strip().splitlines()[-1])


def sample_lines(files, n=4):
    out = []
    for fn in files:
        for l in open(fn):
            x = json.loads(l)
            if x["ev"] == "cmd" and len(out) < n:
                out.append(dict(cmd=x["cmd"], view={k: x["view"][k] for k in ("n", "cursor", "tail", "filters", "filtered")}))
            if x["ev"] == "final" and x.get("via") == "tcp" and len(out) < n + 1:
                out.append(dict(via="tcp", records=len(x["recs"]), traced_transitions=len(x["src"]),
                                errors=x["errors"]))
        if len(out) > n:
            break
    return out


def distinct_nontrivial(files):
    """distinct (schema size, record flags+clocks, derived data) records that are
    non-trivial (changed a tick, queued, canceled, auto, check or error) plus
    distinct (view before, command) pairs that moved the cursor or changed the
    filtered view."""
    recs, cmds = set(), set()
    imp_marker = 0
    for fn in files:
        prev = None
        for l in open(fn):
            x = json.loads(l)
            if x["ev"] in ("final",):
                for r, p in zip(x["recs"], x["parsed"]):
                    if p["diff"] or r["queued"] or not r["acc"] or r["auto"] or r["check"]:
                        recs.add((x["sch"]["n"], tuple(r["clocks"]), r["queued"], r["acc"], r["auto"], r["check"],
                                  tuple(p["added"]), tuple(p["removed"]), tuple(p["touched"]), p["diff"]))
            elif x["ev"] == "cmd" and prev is not None and not x["view"].get("iserr"):
                v = x["view"]
                if (v["cursor"], v["filtered"], v["filters"]) != (prev["cursor"], prev["filtered"], prev["filters"]):
                    cmds.add((json.dumps(x["cmd"], sort_keys=True), prev["cursor"], tuple(prev["filtered"]),
                              tuple(prev["filters"]), prev["n"], prev["tail"]))
            elif x["ev"] == "import":
                if x["a"]["parsed"] != x["b"]["parsed"]:
                    imp_marker += 1
            if x["ev"] in ("open", "ingest", "cmd"):
                prev = x.get("view")
    return len(recs), len(cmds), imp_marker


def matrix_stats(files):
    """what the filter-matrix clients held: records by (auto, queued, canceled,
    check) and queued mutations by the kind of their executor"""
    kinds, execs = Counter(), Counter()
    for fn in files:
        for l in open(fn):
            if '"ev":"final"' not in l[:300]:
                continue
            x = json.loads(l)
            recs = x["recs"]
            for i, r in enumerate(recs):
                kinds["%s%s%s%s" % ("auto " if r["auto"] else "", "queued " if r["queued"] else "",
                                    "canceled " if not r["acc"] else "", "check" if r["check"] else "")] += 1
                if not r["queued"]:
                    continue
                ex = next((e for e in recs[i + 1:] if not e["queued"] and
                           (e["qt"] == r["mqt"] or (e["tok"] > 0 and e["tok"] == r["tok"]))), None)
                execs["%s mutation, %s" % ("auto" if r["auto"] else "manual",
                                           "no executor" if ex is None else
                                           "executor accepted" if ex["acc"] else "executor canceled")] += 1
    return dict(record_kinds=len(kinds), queued_by_executor=dict(execs))


def jump_stats(files):
    """jumps by transition id: how many asked for a record not held yet, and how
    many of those ids were asked for again after their record had arrived"""
    early = again = held = 0
    for fn in files:
        pend = set()
        n = 0
        for l in open(fn):
            if '"scrollid"' not in l and '"ev":"open"' not in l[:300] and '"ev":"ingest"' not in l[:300]:
                continue
            x = json.loads(l)
            if x["ev"] == "open":
                pend, n = set(), 0
            elif x["ev"] == "ingest":
                n = x["view"]["n"]
            elif x["ev"] == "cmd" and x["cmd"]["op"] == "scrollid":
                k = x["cmd"]["k"]
                if 0 < k <= n:
                    held += 1
                    if k in pend:
                        again += 1
                        pend.discard(k)
                elif k > n:
                    early += 1
                    pend.add(k)
    return dict(of_ids_held=held, of_ids_still_to_come=early, asked_again_after_the_record_arrived=again)


def check(tier):
    rep = Report(PROP, tier, "model_checking")
    sd = seed()
    binary = build_harness()
    d = scratch(PROP)
    t0 = time.time()
    try:
        with cf.ThreadPoolExecutor(max_workers=6) as ex:
            f_mc = ex.submit(run_mc, tier, rep)
            # ---- drivers
            n_stream, calls, cmds = (96, 8, 6) if tier == "quick" else (3000, 10, 8)
            n_lookup = 400 if tier == "quick" else 6000
            n_tcp = 1 if tier == "quick" else 6
            meta = {}

            def do_stream():
                s = driver(binary, ["-mode", "stream", "-n", str(n_stream), "-calls", str(calls), "-cmds", str(cmds),
                                    "-workers", "12", "-seed", str(sd), "-out", os.path.join(d, "st"), "-tmp", d])
                for fn in merge(sorted(glob.glob(os.path.join(d, "st.*.ndjson"))), 6):
                    meta[fn] = dict(kind="stream", extra=dict(seed=sd, n=n_stream, calls=calls, cmds=cmds))
                return s

            def do_tcp():
                s = driver(binary, ["-mode", "tcp", "-n", str(n_tcp), "-clients", "3", "-calls", str(calls),
                                    "-seed", str(sd), "-out", os.path.join(d, "tcp"), "-tmp", d])
                meta[os.path.join(d, "tcp.0.ndjson")] = dict(kind="tcp", extra=dict(seed=sd, n=n_tcp, calls=calls))
                return s

            def do_lookup():
                s = driver(binary, ["-mode", "lookup", "-n", str(n_lookup), "-seed", str(sd),
                                    "-out", os.path.join(d, "lk")])
                meta[os.path.join(d, "lk.0.ndjson")] = dict(kind="lookup", extra=dict(seed=sd, n=n_lookup))
                return s

            def do_emit():
                tot = dict(cases=0, mismatches=0, broken=0, tlc_states=0, samples=[], attacks=[])
                plan = []
                ep = emit_plan(tier, sd)
                # the TLC runs that produce behaviours / attack schedules, side by side
                with cf.ThreadPoolExecutor(max_workers=len(ep) + 1) as ex2:
                    f_at = ex2.submit(attacks, d)
                    f_em = [ex2.submit(emit, consts, to, os.path.join(d, "seq-%s.ndjson" % label))
                            for label, initf, consts, to in ep]
                    for (label, initf, consts, to), fu in zip(ep, f_em):
                        nseq, nst = fu.result()
                        if nseq == 0:
                            raise Inconclusive("TLC emitted no behaviour for '%s'" % label)
                        tot["tlc_states"] += nst
                        tot.setdefault("emitted", {})[label] = nseq
                        plan.append((initf, os.path.join(d, "seq-%s.ndjson" % label), "rp-" + label, 8))
                    at = f_at.result()
                for k, (initf, path, label, nseq) in enumerate(at):
                    tot["attacks"].append(dict(protection_removed=label, schedules=nseq))
                    if nseq:
                        plan.append((initf, path, "at%d-%s" % (k, initf), 1))
                return tot, plan

            def do_replay(tot, plan):
                def one(p):
                    name, seqf, pref, nw = p
                    s = driver(binary, ["-mode", "replay", "-in", seqf, "-initf", name, "-workers", str(nw),
                                        "-out", os.path.join(d, pref), "-tmp", d])
                    return p, s
                # two plans side by side (a debugger mostly waits for its own timers)
                with cf.ThreadPoolExecutor(max_workers=2) as ex3:
                    done = list(ex3.map(one, plan))
                for (name, seqf, pref, nw), s in done:
                    attack = pref.startswith("at")
                    for fn in merge(sorted(glob.glob(os.path.join(d, pref + ".*.ndjson"))), 3 if tier == "quick" else 4):
                        meta[fn] = dict(kind="kinds", extra=dict(initf=name))
                    tot["cases"] += s["cases"]
                    tot["broken"] += s.get("broken", 0)
                    tot["retried"] = tot.get("retried", 0) + s.get("retried", 0)
                    if attack:
                        # the view an attack schedule carries is the prediction of the model with
                        # ONE PROTECTION REMOVED: code that has the protection differs from it, and
                        # that is the point (the trace is still validated against the model of the
                        # code as it is).  Recorded, not drift.
                        k = int(pref[2:pref.index("-")])
                        tot["attacks"][k]["real_view_equals_view_predicted_without_the_protection"] = s["mismatches"] == 0
                    else:
                        tot["mismatches"] += s["mismatches"]
                        tot["samples"] += s.get("mismatch_samples", [])[:3]
                return tot

            def do_filters():
                # quick: the sets of filter states are dealt to 3 cases, each set is walked through
                # by 2 cases (different record orders / batches); thorough: every case walks all
                n, parts, extra = (6, 3, 0) if tier == "quick" else (48, 1, 6)
                s = driver(binary, ["-mode", "filters", "-n", str(n), "-parts", str(parts), "-extra", str(extra),
                                    "-workers", "6", "-seed", str(sd), "-out", os.path.join(d, "fm"), "-tmp", d])
                for fn in merge(sorted(glob.glob(os.path.join(d, "fm.*.ndjson"))), 3 if tier == "quick" else 12):
                    meta[fn] = dict(kind="matrix", extra=dict(seed=sd, n=n, parts=parts, extra=extra))
                return s

            phase = {}
            f_em = ex.submit(do_emit)
            f_st, f_tcp, f_lk = ex.submit(do_stream), ex.submit(do_tcp), ex.submit(do_lookup)
            f_fm = ex.submit(do_filters)
            s_st, s_tcp, s_lk, s_fm = f_st.result(), f_tcp.result(), f_lk.result(), f_fm.result()
            phase["drivers"] = round(time.time() - t0, 1)
            tot, plan = f_em.result()
            phase["emit"] = round(time.time() - t0, 1)
            s_rp = do_replay(tot, plan)
            phase["replay"] = round(time.time() - t0, 1)
            f_mc.result()
            phase["mc"] = round(time.time() - t0, 1)
        files = sorted(meta)
        res = validate(files)
        phase["validate"] = round(time.time() - t0, 1)
        stats = dict(lines=0, cnt=Counter(), viol=Counter(), sigs=Counter())
        judge(res, rep, meta, stats)
        for m in s_rp["samples"]:
            rep.drift.append("replay: real view differs from the view TLC generated: " + m[:300])
        nrec, ncmd, marker = distinct_nontrivial([f for f in files if meta[f]["kind"] != "lookup"])
        cnt = stats["cnt"]
        rep.coverage.update(
            traces_validated_against_impl=s_st["cases"] + s_tcp["cases"] + s_rp["cases"] + s_lk["cases"] + s_fm["cases"],
            evaluations=stats["lines"],
            distinct_nontrivial=nrec + ncmd,
            distinct_nontrivial_records=nrec, distinct_effective_commands=ncmd,
            trace_lines=stats["lines"], events=dict(cnt),
            real_streams=s_st["cases"], tcp_clients=s_tcp["cases"], lookup_lists=s_lk["cases"],
            growing_stores=s_lk.get("growing", 0),
            filter_matrix_cases=s_fm["cases"], filter_sets_walked=s_fm["filter_sets_visited"],
            filter_matrix=matrix_stats([f for f in files if meta[f]["kind"] == "matrix"]),
            jumps_by_id=jump_stats(files),
            tlc_generated_behaviours=s_rp["cases"], tlc_emitted=s_rp.get("emitted", {}),
            behaviours_that_broke_the_debugger=s_rp["broken"] + s_st.get("broken", 0) + s_fm.get("broken", 0),
            attack_schedules=s_rp["attacks"],
            cases_retried_after_a_stall=s_rp.get("retried", 0) + s_st.get("retried", 0) + s_fm.get("retried", 0),
            fwd_back_pairs=cnt.get("fwdback", 0), imports=cnt.get("import", 0),
            import_touched_marker_differences=marker,
            violations_by_formula=dict(stats["viol"]), violations_by_signature=dict(stats["sigs"]),
            phase_wall_s=phase,
            rule="(a) machines over generated 2-4 state schemas (Multi/Auto/Err* states, vetoing handlers, "
                 "nested mutations, checks, Exception) produce telemetry through pkg/telemetry/dbg; it is "
                 "captured from the wire and ingested in 1-3 batches with seeded Fwd/Back/ScrollToTx/filter/"
                 "tail commands in between, or sent by several machines concurrently over loopback TCP; "
                 "(b) record lists of length 0..16 as a machine produces them (and arbitrary ones, judged "
                 "only where no monotonicity is needed); (c) every behaviour of the cursor model within the "
                 "emission constants (sharded by seed), among them jumps by transition id to records held / "
                 "still to come; (b') one record list that grows step by step with TxIndex / TxAtQueueTick / "
                 "TxAtMachTime asked for the same key before and after a growth (and ClearCache); in (a) "
                 "ScrollToTx{TxId} is sent for ids of later batches and again after every later batch; (d) a "
                 "client holding every kind of record (auto x queued x canceled x check, empty, health; "
                 "executors accepted / canceled / missing) and a walk of ToggleTool commands through all "
                 "192 reachable sets of filter states. One evaluation = one validated ndjson line; distinct "
                 "non-trivial = distinct records that changed a tick or are queued/canceled/auto/check, with "
                 "their derived data, plus distinct (view, command) pairs that changed the cursor or the "
                 "filtered view",
            samples=sample_lines(files) or [dict(note="no sample")],
            formulas=["RecordFaithful", "DerivedConsistent", "LookupEqualsScan", "FwdBackIdentity", "FilterSound",
                      "FilteredSound", "ExportImportIdentity", "NoPanic"],
            exhaustive=False)
        rep.notes.append("StatesTouched of the live path carries a -1 entry for the global Any handlers, the "
                         "import path does not (%d imported clients differ only by that marker); compared as "
                         "sets of states" % marker)
        rep.assumptions += [
            "TLC explores the bounded models completely only within the stated constants",
            "the debugger machine's 100ms handler deadline is raised to 30s in the harness (loaded host)",
            "the Result of Add calls on the debugger machine is not used (its background goroutines share the queue)",
            "FilterSound is required when the debugger selects a transition (cursor moved / filter toggled), "
            "not while the cursor rests on a record that later telemetry re-classifies",
            "FilteredSound (what MsgTxsFiltered lists matches the active filters) is required on ALL the records "
            "held right after a filter toggle re-filtered, and at every other moment on the records up to the "
            "listed one (the code filters an ingested record against the records received so far)",
            "a jump by transition id must land on the transition a scan finds only when the ScrollToTx handler ran "
            "and that transition can be shown (no filter state on, or the filtered view lists it); a refused jump "
            "is judged by what Client.TxIndex answers for the id right after the command",
            "FwdBackIdentity: Fwd(1) that moved, then Back(1); any amount when no filter is active",
            "GC of old messages (GcMsgs) is disabled by a high --max-mem; groups are never selected"]
    finally:
        shutil.rmtree(d, ignore_errors=True)
    return rep.finish()


def replay(path):
    obj = json.load(open(path))
    rep = Report(PROP, os.environ.get("VERIF_TIER", "quick"), "model_checking")
    binary = build_harness()
    d = scratch(PROP + "-replay")
    try:
        kind = obj["kind"]
        meta = {}
        if kind == "kinds":
            seqf = os.path.join(d, "seq.ndjson")
            with open(seqf, "w") as f:
                f.write(json.dumps(obj["seq"]) + "\n")
            driver(binary, ["-mode", "replay", "-in", seqf, "-initf", obj.get("initf", "default"), "-workers", "1",
                            "-out", os.path.join(d, "rp"), "-tmp", d])
            meta[os.path.join(d, "rp.0.ndjson")] = dict(kind="kinds", extra=dict(initf=obj.get("initf")))
        elif kind == "stream":
            idx = int(obj["label"].split("-")[-1])
            driver(binary, ["-mode", "stream", "-n", str(obj["n"]), "-calls", str(obj["calls"]), "-cmds",
                            str(obj["cmds"]), "-seed", str(obj["seed"]), "-only", str(idx),
                            "-out", os.path.join(d, "st"), "-tmp", d])
            meta[os.path.join(d, "st.0.ndjson")] = dict(kind="stream", extra={k: obj[k] for k in ("seed", "n", "calls", "cmds")})
        elif kind == "matrix":
            idx = int(obj["label"].split("-")[-1])
            driver(binary, ["-mode", "filters", "-n", str(obj["n"]), "-parts", str(obj["parts"]), "-extra",
                            str(obj["extra"]), "-seed", str(obj["seed"]), "-only", str(idx),
                            "-out", os.path.join(d, "fm"), "-tmp", d])
            meta[os.path.join(d, "fm.0.ndjson")] = dict(kind="matrix", extra={k: obj[k] for k in ("seed", "n", "parts", "extra")})
        elif kind == "tcp":
            driver(binary, ["-mode", "tcp", "-n", str(obj["n"]), "-clients", "3", "-calls", str(obj["calls"]),
                            "-seed", str(obj["seed"]), "-out", os.path.join(d, "tcp"), "-tmp", d])
            meta[os.path.join(d, "tcp.0.ndjson")] = dict(kind="tcp", extra={})
        elif kind == "lookup":
            fn = os.path.join(d, "lk.0.ndjson")
            with open(fn, "w") as f:
                f.write(json.dumps(obj["line"]) + "\n")
            # re-query the real functions on the stored lists
            driver(binary, ["-mode", "lookup", "-n", str(obj["n"]), "-seed", str(obj["seed"]),
                            "-out", os.path.join(d, "lk")])
            meta[fn] = dict(kind="lookup", extra={k: obj[k] for k in ("seed", "n")})
        files = sorted(meta)
        res = validate(files)
        stats = dict(lines=0, cnt=Counter(), viol=Counter(), sigs=Counter())
        judge(res, rep, meta, stats)
        # only the stored formula counts
        rep.violations = [v for v in rep.violations if v[0].get("formula") == obj.get("formula")]
        rep.coverage.update(evaluations=max(stats["lines"], 1), distinct_nontrivial=2, rule="replay",
                            samples=[obj.get("label") or kind], states=1, transitions=1,
                            traces_validated_against_impl=1)
    finally:
        shutil.rmtree(d, ignore_errors=True)
    return rep.finish()


if __name__ == "__main__":
    sys.exit(check(sys.argv[1] if len(sys.argv) > 1 else "quick"))
