#!/bin/sh
# Offline setup: build the Go harness against /repo (verif tag) and parse every TLA+ module.
set -e
cd "$(dirname "$0")"
export GOFLAGS=-mod=mod GOPROXY=off GOSUMDB=off GOTOOLCHAIN=local
GO=/root/go/pkg/mod/golang.org/toolchain@v0.0.1-go1.25.0.linux-amd64/bin/go
[ -x "$GO" ] || GO=go
mkdir -p .build evidence replays
cp /repo/go.sum harness/go.sum
(cd harness && "$GO" build -tags verif -o ../.build/amverif ./cmd/amverif)
T=$(mktemp -d)
cp spec/*.tla "$T"/
for m in MCMachine TraceMachine; do
  (cd "$T" && tla-sany $m.tla > $m.sany.log 2>&1) || { cat "$T"/$m.sany.log; rm -rf "$T"; exit 1; }
done
rm -rf "$T"
echo setup ok
