package rec

// Binding forms: the same Binding (which handler names a binding owns) bound
// to the machine through the other documented entry point,
// Machine.HandlersBind(&struct), in every shape the library resolves a handler
// name on a struct: methods, methods promoted from an embedded struct, exported
// func fields, func fields promoted from an embedded struct (by value and
// through a pointer), and mixtures.  Every handler body is Recorder.onHandler,
// so the log (and therefore the property formulas) cannot tell the forms apart.
//
// The field forms are built with reflect.StructOf for exactly the handler names
// the binding owns (any index, any partial binding).  Methods cannot be made at
// run time: the method forms are the static types of forms_gen.go over the index
// A, B, Exception (families s2 / s2after) and need a binding that owns every
// handler name over that index (a method that exists is a handler that runs).

import (
	"fmt"
	"reflect"

	am "github.com/pancsta/asyncmachine-go/pkg/machine"
)

const (
	FormMap       = "map"       // HandlersBindMaps (the default)
	FormFields    = "fields"    // exported func fields of the bound struct
	FormPromoted  = "promoted"  // func fields of an embedded struct
	FormPPromoted = "ppromoted" // func fields of an embedded *struct
	FormMixFields = "mixfields" // own and promoted func fields, alternating
	FormMethods   = "methods"   // methods of the bound struct
	FormPMethods  = "pmethods"  // methods promoted from an embedded struct
	FormMixed     = "mixed"     // methods + own func fields + promoted func fields
)

// DynForms work for every binding, StaticForms for full bindings over A, B.
var DynForms = []string{FormFields, FormPromoted, FormPPromoted, FormMixFields}
var StaticForms = []string{FormMethods, FormPMethods, FormMixed}

var (
	negT = reflect.TypeOf((func(*am.Event) bool)(nil))
	finT = reflect.TypeOf((func(*am.Event))(nil))
)

func (r *Recorder) handlerFunc(b int, h HName) reflect.Value {
	if IsFinal(h) {
		return reflect.ValueOf(func(e *am.Event) { r.onHandler(b, h, e) })
	}
	return reflect.ValueOf(func(e *am.Event) bool { return r.onHandler(b, h, e) })
}

func handlerType(h HName) reflect.Type {
	if IsFinal(h) {
		return finT
	}
	return negT
}

// dynStruct builds &struct{ Base; <own fields> } where Base (embedded, by value
// or by pointer) carries the handlers for which own() is false.
func (r *Recorder) dynStruct(b int, bd Binding, own func(i int) bool, ptr bool) any {
	all := append(append([]HName{}, bd.Neg...), bd.Fin...)
	var ownF, embF []reflect.StructField
	var ownH, embH []HName
	seen := map[string]bool{}
	for i, h := range all {
		if seen[h.GoName()] {
			continue
		}
		seen[h.GoName()] = true
		f := reflect.StructField{Name: h.GoName(), Type: handlerType(h)}
		if own(i) {
			ownF, ownH = append(ownF, f), append(ownH, h)
		} else {
			embF, embH = append(embF, f), append(embH, h)
		}
	}
	fields := ownF
	var embT reflect.Type
	if len(embF) > 0 {
		embT = reflect.StructOf(embF)
		t := embT
		if ptr {
			t = reflect.PointerTo(embT)
		}
		fields = append([]reflect.StructField{{Name: "Base", Type: t, Anonymous: true}}, ownF...)
	}
	v := reflect.New(reflect.StructOf(fields))
	for _, h := range ownH {
		v.Elem().FieldByName(h.GoName()).Set(r.handlerFunc(b, h))
	}
	if len(embF) > 0 {
		base := v.Elem().Field(0)
		if ptr {
			p := reflect.New(embT)
			base.Set(p)
			base = p.Elem()
		}
		for _, h := range embH {
			base.FieldByName(h.GoName()).Set(r.handlerFunc(b, h))
		}
	}
	return v.Interface()
}

// IsFullAB: the binding owns every handler name over the index A, B, Exception.
func IsFullAB(index am.S, bd Binding) bool {
	if len(index) != 3 || index[0] != "A" || index[1] != "B" || index[2] != am.StateException {
		return false
	}
	neg, fin := AllHandlerNames(index)
	has := map[string]bool{}
	for _, h := range bd.Neg {
		has[h.Key()] = true
	}
	for _, h := range bd.Fin {
		has[h.Key()] = true
	}
	for _, h := range append(neg, fin...) {
		if !has[h.Key()] {
			return false
		}
	}
	return len(has) == len(neg)+len(fin)
}

// fillFuncFields sets every nil exported func field (own or promoted) named
// like a handler of the binding.
func (r *Recorder) fillFuncFields(v reflect.Value, b int, bd Binding) {
	for _, h := range append(append([]HName{}, bd.Neg...), bd.Fin...) {
		f := v.Elem().FieldByName(h.GoName())
		if f.IsValid() && f.Kind() == reflect.Func && f.IsNil() {
			f.Set(r.handlerFunc(b, h))
		}
	}
}

// FormStruct returns the struct to hand to HandlersBind for the binding.
func (r *Recorder) FormStruct(index am.S, b int, bd Binding) (any, error) {
	switch bd.Form {
	case FormFields:
		return r.dynStruct(b, bd, func(int) bool { return true }, false), nil
	case FormPromoted:
		return r.dynStruct(b, bd, func(int) bool { return false }, false), nil
	case FormPPromoted:
		return r.dynStruct(b, bd, func(int) bool { return false }, true), nil
	case FormMixFields:
		return r.dynStruct(b, bd, func(i int) bool { return i%2 == 1 }, b%2 == 0), nil
	case FormMethods, FormPMethods, FormMixed:
		if !IsFullAB(index, bd) {
			return nil, fmt.Errorf("binding form %q needs a full binding over A, B", bd.Form)
		}
		switch bd.Form {
		case FormMethods:
			return &AbMethods{r: r, b: b}, nil
		case FormPMethods:
			return &AbPMethods{AbMethods{r: r, b: b}}, nil
		}
		s := &AbMixed{r: r, b: b}
		r.fillFuncFields(reflect.ValueOf(s), b, bd)
		return s, nil
	}
	return nil, fmt.Errorf("unknown binding form %q", bd.Form)
}

// BindForm binds the binding in the form it names ("" = map).
func (r *Recorder) BindForm(m *am.Machine, b int, bd Binding) error {
	if bd.Form == "" || bd.Form == FormMap {
		return r.Bind(m, b, bd)
	}
	s, err := r.FormStruct(m.StateNames(), b, bd)
	if err != nil {
		return err
	}
	_, err = m.HandlersBind(s, am.BindOpts{Id: "vb" + string(rune('0'+b))})
	return err
}
