#!/usr/bin/env python3
"""Regression sweep: every seeded change in seeded/<id>/ is applied to a scratch worktree of
/repo at its CURRENT HEAD and the quick check(s) that are recorded as catching it are run
with VERIF_REPO pointing there.  Writes seeded/SWEEP.json: id -> {property: exit code}.

usage: seedsweep.py <scratch-worktree> [id ...]
The worktree must exist (git -C /repo worktree add --detach <dir> HEAD) and is restored
after every seed.  A patch that no longer applies is reported as "patch-does-not-apply".
"""
import json, os, subprocess, sys, time

ROOT = os.path.abspath(os.path.join(os.path.dirname(os.path.abspath(__file__)), ".."))


def sh(cmd, cwd=None, env=None, timeout=3600):
    p = subprocess.run(cmd, cwd=cwd, env=env, stdout=subprocess.PIPE, stderr=subprocess.STDOUT, text=True,
                       timeout=timeout)
    return p.returncode, p.stdout


def main():
    wt = sys.argv[1]
    only = set(sys.argv[2:])
    out_path = os.path.join(ROOT, "seeded", "SWEEP.json")
    res = json.load(open(out_path)) if os.path.exists(out_path) else {}
    head = sh(["git", "-C", "/repo", "rev-parse", "HEAD"])[1].strip()
    sh(["git", "checkout", "-q", "--detach", head], cwd=wt)
    for sid in sorted(os.listdir(os.path.join(ROOT, "seeded"))):
        d = os.path.join(ROOT, "seeded", sid)
        if not os.path.isdir(d) or (only and sid not in only):
            continue
        meta = json.load(open(os.path.join(d, "meta.json")))
        props = meta.get("detected_by") or meta.get("properties")[:1]
        sh(["git", "checkout", "--", "."], cwd=wt)
        rc, out = sh(["git", "apply", os.path.join(d, "patch.diff")], cwd=wt)
        entry = dict(repo_head=head[:10], at=time.strftime("%Y-%m-%dT%H:%MZ", time.gmtime()))
        if rc != 0:
            # try a 3-way / fuzzy application before giving up
            rc, out = sh(["git", "apply", "-C1", "--recount", os.path.join(d, "patch.diff")], cwd=wt)
        if rc != 0:
            entry["result"] = "patch-does-not-apply"
            res[sid] = entry
            print(sid, "patch does not apply")
            continue
        genv = dict(os.environ, GOFLAGS="-mod=mod", GOPROXY="off", GOSUMDB="off", GOTOOLCHAIN="local")
        go = "/root/go/pkg/mod/golang.org/toolchain@v0.0.1-go1.25.0.linux-amd64/bin/go"
        rc, out = sh([go if os.path.exists(go) else "go", "build", "-tags", "verif", "./pkg/...", "./tools/..."],
                     cwd=wt, env=genv)
        if rc != 0:
            # written against an earlier commit of the library (e.g. uses an import a later
            # repair removed): recorded with the commit it was confirmed at, not a verdict
            entry["result"] = "does-not-compile-at-head"
            entry["build_error"] = out[-300:]
            entry["confirmed_at"] = meta.get("worktree", "")
            res[sid] = entry
            print(sid, "does not compile at HEAD", flush=True)
            sh(["git", "checkout", "--", "."], cwd=wt)
            json.dump(res, open(out_path, "w"), indent=1, sort_keys=True)
            continue
        try:
            env = dict(os.environ, VERIF_REPO=wt)
            entry["checks"] = {}
            for p in props:
                t0 = time.time()
                rc, out = sh(["./check", p, "--tier", "quick"], cwd=ROOT, env=env)
                entry["checks"][p] = dict(rc=rc, wall_s=round(time.time() - t0))
            entry["result"] = "detected" if any(c["rc"] == 1 for c in entry["checks"].values()) else "missed"
        finally:
            sh(["git", "checkout", "--", "."], cwd=wt)
        res[sid] = entry
        print(sid, entry["result"], {p: c["rc"] for p, c in entry["checks"].items()}, flush=True)
        json.dump(res, open(out_path, "w"), indent=1, sort_keys=True)
    return 0


if __name__ == "__main__":
    sys.exit(main())
