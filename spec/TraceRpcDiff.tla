---------------------------- MODULE TraceRpcDiff ----------------------------
(* Function-level conformance of the REAL clock-diff codec (harness/rpcdiff)  *)
(* against RpcDiff.tla.  Every ndjson line is one case: configuration, first  *)
(* and successive source clocks, and everything the real code computed from   *)
(* them (tracked indexes of both sides, the server's last push, the mirror,   *)
(* the tracer snapshots, the message(s), the decoded clocks, acceptance, the  *)
(* mirror afterwards, and the same for drifted mirrors).                      *)
(*                                                                            *)
(*   drift  every stage in which the specification, fed with the LOGGED       *)
(*          inputs of that stage, computes something else than the code did   *)
(*          -> the code no longer conforms to the specification               *)
(*   viol   every property formula that is FALSE on the LOGGED values         *)
(*          -> the verdict on the real code                                   *)
EXTENDS RpcDiff, Json, TLC

CONSTANT TraceFile

Trace == ndJsonDeserialize(TraceFile)

VARIABLES l, viol, drift, nprobe

tvars == <<l, viol, drift, nprobe>>

Snap3(s) == [nil |-> s.nil, t |-> IF s.nil THEN <<>> ELSE UTime(s.t), q |-> U(s.q), m |-> U(s.m)]
SnapAll(s) == [nil |-> s.nil, t |-> UTime(s.t), q |-> U(s.q), m |-> U(s.m),
               sum |-> U(s.sum), ck |-> U(s.ck), idx |-> s.idx]
Msg(x) == [ix |-> x.ix, tk |-> UTime(x.tk), q |-> U(x.q), m |-> U(x.m), ck |-> U(x.ck)]
Dec(x) == [t |-> UTime(x.t), q |-> U(x.q), m |-> U(x.m), ck |-> U(x.ck)]
St(x) == [t |-> x.t, q |-> x.q, m |-> x.m]

Eval(x) ==
  LET cfg == [allowedNil |-> x.allowedNil, allowed |-> x.allowed, skipped |-> x.skipped,
              schema |-> x.schema, shallow |-> x.shallow]
      n == x.n
      n1 == x.n1
      first == UClock(x.first)
      snaps == [j \in 1..Len(x.snaps) |-> UClock(x.snaps[j])]
      (* ----- what the code computed ----- *)
      gLast == Snap3(x.last)
      gMirror == UClock(x.mirror)
      gDatas == [j \in 1..Len(x.datas) |-> SnapAll(x.datas[j])]
      gMsgs == [j \in 1..Len(x.msgs) |-> Msg(x.msgs[j])]
      gDec == [j \in 1..Len(x.dec) |-> Dec(x.dec[j])]
      gAfter == UClock(x.after)
      (* ----- what the specification computes ----- *)
      sPre == Premise(x.kind, cfg, n, n1, first)
      sDatas == IF x.muts THEN [j \in 1..Len(snaps) |-> Snapshot(cfg, n, snaps[j])]
                ELSE <<Snapshot(cfg, n, snaps[Len(snaps)])>>
      sMsgs == Encode(cfg, x.muts, gDatas, gLast)
      sPanic == \E j \in 1..Len(sMsgs) : sMsgs[j].panic
      sApply == Apply(cfg, x.cliIdx, gMsgs, gMirror)
      d == UNION {
             IF x.srvIdx = Tracked(cfg, n) THEN {} ELSE {"tracked.server"},
             IF x.cliIdx = CliIdx(cfg, n) THEN {} ELSE {"tracked.client"},
             IF gLast = sPre.last THEN {} ELSE {"lastpush"},
             IF gMirror = sPre.mirror THEN {} ELSE {"mirror"},
             IF gDatas = sDatas THEN {} ELSE {"snapshot"},
             IF x.panic = sPanic THEN {} ELSE {"encode.panic"},
             IF x.panic \/ sPanic \/
                gMsgs = [j \in 1..Len(sMsgs) |->
                           [ix |-> sMsgs[j].ix, tk |-> sMsgs[j].tk, q |-> sMsgs[j].q,
                            m |-> sMsgs[j].m, ck |-> sMsgs[j].ck]]
             THEN {} ELSE {"message"},
             IF x.panic \/ gDec = sApply.dec THEN {} ELSE {"decode"},
             IF x.panic \/ x.acc = sApply.acc THEN {} ELSE {"accepted"},
             IF x.panic \/ gAfter = sApply.st THEN {} ELSE {"after"},
             IF x.accPanic THEN {"decode.panic"} ELSE {},
             UNION {LET p == x.probes[k]
                        a == Apply(cfg, x.cliIdx, gMsgs, UClock(p.mirror))
                    IN  IF p.acc = a.acc /\ UClock(p.after) = a.st THEN {} ELSE {"probe"}
                    : k \in 1..Len(x.probes)}}
      (* ----- the property on the code's output ----- *)
      v == UNION {
             IF RoundTrip(cfg, n, snaps, x.panic, x.acc, gDec, gAfter) THEN {} ELSE {"RoundTrip"},
             IF x.panic \/ Applied(x.acc, gMirror, gDec, gAfter) THEN {} ELSE {"Applied"},
             UNION {LET p == x.probes[k]
                    IN  IF DriftRejected(cfg, x.cliIdx, gMirror, UClock(p.mirror), p.acc,
                                         UClock(p.after))
                        THEN {} ELSE {"DriftRejected"}
                    : k \in 1..Len(x.probes)}}
      np == Cardinality({k \in 1..Len(x.probes) :
                           Drifted(cfg, x.cliIdx, gMirror, UClock(x.probes[k].mirror))})
  IN  [d |-> d, v |-> v, np |-> np]

TraceInit == l = 1 /\ viol = {} /\ drift = {} /\ nprobe = 0

Step ==
  /\ l <= Len(Trace)
  /\ LET r == Eval(Trace[l])
     IN  /\ viol' = viol \cup {<<l, f>> : f \in r.v}
         /\ drift' = drift \cup {<<l, f>> : f \in r.d}
         /\ nprobe' = nprobe + r.np
  /\ l' = l + 1

Done ==
  /\ l = Len(Trace) + 1
  /\ PrintT(<<"RESULT", ToJson([lines |-> Len(Trace), nprobe |-> nprobe,
                                viol |-> viol, drift |-> drift])>>)
  /\ l' = l + 1
  /\ UNCHANGED <<viol, drift, nprobe>>

TraceNext == Step \/ Done

TraceSpec == TraceInit /\ [][TraceNext]_tvars

TraceView == <<l>>
=============================================================================
