package main

import (
	"encoding/json"
	"flag"
	"fmt"
	"os"
	"time"

	am "github.com/pancsta/asyncmachine-go/pkg/machine"

	"verifharness/gen"
	"verifharness/rec"
	"verifharness/seqdrv"
)

// CaseJ is the on-disk form of a sequential case (replay files, TLC-predicted
// counterexamples).
type CaseJ struct {
	Label  string                    `json:"label"`
	Names  am.S                      `json:"names"`
	Schema map[string]seqdrv.StateJ  `json:"schema"`
	On     bool                      `json:"on"`
	Binds  json.RawMessage           `json:"binds"` // "full" or [{neg,fin}]
	Calls  []json.RawMessage         `json:"calls"`
}

func hname(x any) rec.HName {
	var h rec.HName
	for _, p := range x.([]any) {
		h = append(h, p.(string))
	}
	return h
}

func pairList(x any) [][]any {
	out := [][]any{}
	if x == nil {
		return out
	}
	for _, e := range x.([]any) {
		p := e.([]any)
		item := []any{int(p[0].(float64)), hname(p[1])}
		if len(p) > 2 {
			item = append(item, p[2])
		}
		out = append(out, item)
	}
	return out
}

func LoadCase(cj *CaseJ) (*gen.Case, error) {
	c := &gen.Case{Label: cj.Label, Names: cj.Names, On: cj.On, Schema: am.Schema{}}
	for n, s := range cj.Schema {
		if n == am.StateException {
			continue
		}
		c.Schema[n] = am.State{Auto: s.Auto, Multi: s.Multi, Require: s.Require,
			Add: s.Add, Remove: s.Remove, After: s.After}
	}
	index := gen.Index(c)
	if c.On {
		var str string
		if err := json.Unmarshal(cj.Binds, &str); err == nil {
			c.Binds = []rec.Binding{gen.FullBinding(index)}
		} else {
			if err := json.Unmarshal(cj.Binds, &c.Binds); err != nil {
				return nil, err
			}
		}
	}
	for _, raw := range cj.Calls {
		var m map[string]any
		if err := json.Unmarshal(raw, &m); err != nil {
			return nil, err
		}
		if ev, _ := m["ev"].(string); ev == "env" {
			b, _ := m["backoff"].(bool)
			c.Calls = append(c.Calls, gen.Call{Ev: "env", Backoff: b, Called: am.S{}, Veto: [][]any{},
				Nest: []gen.NestAt{}})
			continue
		}
		call := gen.Call{Ev: "call", Type: m["type"].(string), Veto: pairList(m["veto"]),
			Panic: pairList(m["panic"]), Stall: pairList(m["stall"]), Nest: []gen.NestAt{}}
		if v, ok := m["check"].(bool); ok {
			call.Check = v
		}
		for _, s := range m["called"].([]any) {
			call.Called = append(call.Called, s.(string))
		}
		if ns, ok := m["nest"].([]any); ok {
			for _, e := range ns {
				em := e.(map[string]any)
				at := em["at"].([]any)
				na := gen.NestAt{At: []any{int(at[0].(float64)), hname(at[1])}, Type: em["type"].(string)}
				for _, s := range em["called"].([]any) {
					na.Called = append(na.Called, s.(string))
				}
				call.Nest = append(call.Nest, na)
			}
		}
		c.Calls = append(c.Calls, call)
	}
	return c, nil
}

// cmdReplay runs the cases of a JSON-lines file on the real machine.
func cmdReplay(args []string) int {
	fs := flag.NewFlagSet("replay", flag.ExitOnError)
	in := fs.String("in", "", "ndjson file with one case per line")
	out := fs.String("out", "replay", "output prefix")
	fs.Parse(args)
	f, err := os.Open(*in)
	if err != nil {
		fmt.Fprintln(os.Stderr, err)
		return 2
	}
	defer f.Close()
	dec := json.NewDecoder(f)
	of, _ := os.Create(*out + ".0.ndjson")
	defer of.Close()
	enc := json.NewEncoder(of)
	n, lines := 0, 0
	for dec.More() {
		var cj CaseJ
		if err := dec.Decode(&cj); err != nil {
			fmt.Fprintln(os.Stderr, err)
			return 2
		}
		c, err := LoadCase(&cj)
		if err != nil {
			fmt.Fprintln(os.Stderr, err)
			return 2
		}
		o := seqdrv.Opts{Views: true}
		for _, cl := range c.Calls {
			if len(cl.Stall) > 0 {
				o.HandlerTimeout = 150 * time.Millisecond
			}
		}
		ls, err := seqdrv.Run(c, o)
		if err != nil {
			fmt.Fprintln(os.Stderr, err)
			return 2
		}
		for _, l := range ls {
			enc.Encode(l)
			lines++
		}
		n++
	}
	fmt.Printf("{\"cases\":%d,\"lines\":%d}\n", n, lines)
	return 0
}

func init() { commands["replay"] = cmdReplay }
