----------------------------- MODULE TraceViews -----------------------------
(* C01, concurrent readers: every sample a reader goroutine takes - while the *)
(* mutating goroutine is parked right after setActiveStates (hook tx.applied) *)
(* or running freely - must satisfy Props!ViewsAgree when it is one atomic    *)
(* snapshot, StringAll's parity must match in any case, and the successive    *)
(* Time() samples of one reader never decrease.                               *)
EXTENDS Props, Json, TLC

CONSTANT TraceFile
Trace == ndJsonDeserialize(TraceFile)

VARIABLES l, viol, last, n
Line == Trace[l]

Init == l = 1 /\ viol = {} /\ last = <<>> /\ n = 0

(* StringAll is taken under one read lock: (name, tick, listedActive)          *)
(* String() lists the active states with their ticks, also one snapshot         *)
AtomicOK(x) ==
  /\ \A i \in 1..Len(x.strall) :
        IsActiveTick(x.strall[i][2]) <=> x.strall[i][3]
  /\ \A i \in 1..Len(x.str) : IsActiveTick(x.str[i][2])

Monotone(prev, cur) ==
  prev = <<>> \/ Len(prev) # Len(cur) \/ \A i \in 1..Len(cur) : cur[i] >= prev[i]

Next ==
  \/ /\ l <= Len(Trace)
     /\ IF Line.ev = "rinit"
        THEN last' = <<>> /\ viol' = viol /\ n' = n
        ELSE /\ n' = n + 1
             /\ viol' = viol
                  \cup (IF AtomicOK(Line) THEN {} ELSE {<<l, "c01-atomic-snapshot">>})
                  \cup (IF Line.parked => ViewsAgree(Line.index, Line.views) THEN {} ELSE {<<l, "c01-views">>})
                  \cup (IF Monotone(last, Line.time) THEN {} ELSE {<<l, "c01-monotone">>})
             /\ last' = Line.time
     /\ l' = l + 1
  \/ /\ l = Len(Trace) + 1
     /\ PrintT(<<"RESULT", ToJson([lines |-> Len(Trace), ntx |-> n, viol |-> viol, drift |-> {}])>>)
     /\ l' = l + 1 /\ UNCHANGED <<viol, last, n>>

TraceSpec == Init /\ [][Next]_<<l, viol, last, n>>
TraceView == <<l>>
=============================================================================
