// Package seqdrv drives a real machine sequentially (one caller goroutine)
// through a generated case and records what it did.
package seqdrv

import (
	"context"
	"errors"
	"fmt"
	"strings"
	"sync/atomic"
	"regexp"
	"strconv"
	"time"

	am "github.com/pancsta/asyncmachine-go/pkg/machine"

	"verifharness/gen"
	"verifharness/rec"
)

type StateJ struct {
	Auto    bool `json:"auto"`
	Multi   bool `json:"multi"`
	Require am.S `json:"require"`
	Add     am.S `json:"add"`
	Remove  am.S `json:"remove"`
	After   am.S `json:"after"`
}

func nz(s am.S) am.S {
	if s == nil {
		return am.S{}
	}
	return s
}

func SchemaJ(sch am.Schema) map[string]StateJ {
	out := map[string]StateJ{}
	for n, st := range sch {
		out[n] = StateJ{st.Auto, st.Multi, nz(st.Require), nz(st.Add), nz(st.Remove), nz(st.After)}
	}
	return out
}

type HsJ struct {
	On    bool          `json:"on"`
	Binds []rec.Binding `json:"binds"`
}

type InitJ struct {
	Ev     string            `json:"ev"`
	Label  string            `json:"label"`
	Index  am.S              `json:"index"`
	Schema map[string]StateJ `json:"schema"`
	Raw    map[string]StateJ `json:"raw"`
	Topo   am.S              `json:"topo"`
	Hs     HsJ               `json:"hs"`
	Err    bool              `json:"err"`
}

type Views struct {
	Active am.S              `json:"active"`
	Time   []uint64          `json:"time"`
	Clock  map[string]uint64 `json:"clock"`
	Ticks  []uint64          `json:"ticks"`
	Is     []bool            `json:"is"`
	Not    []bool            `json:"not"`
	Any    []bool            `json:"any"`
	Str    [][]any           `json:"str"`
	StrAll [][]any           `json:"strall"`
}

type RetJ struct {
	Ev     string   `json:"ev"`
	Res    string   `json:"res"`
	Active am.S     `json:"active"`
	Time   []uint64 `json:"time"`
	Qtick  uint64   `json:"qtick"`
	Qlen   int      `json:"qlen"`
	IsErr  bool     `json:"iserr"`
	Panic  string   `json:"panic,omitempty"`
	Nested []string `json:"nested"`
	// Nestedq: every handler-issued mutation of the call with the queue length
	// and error state it met
	Nestedq []rec.NestedObs `json:"nestedq"`
	ErrHas bool     `json:"errhas"`
	ErrInt int      `json:"errinternal"`
	// ErrTimeout: Err() is (wraps) ErrHandlerTimeout
	ErrTimeout bool `json:"errtimeout"`
	Err    string   `json:"err,omitempty"`
	Views  *Views   `json:"views,omitempty"`
}

var reItem = regexp.MustCompile(`([A-Za-z0-9_]+):(\d+)`)

func parseStr(s string) [][]any {
	out := [][]any{}
	for _, m := range reItem.FindAllStringSubmatch(s, -1) {
		n, _ := strconv.ParseUint(m[2], 10, 64)
		out = append(out, []any{m[1], n})
	}
	return out
}

// SampleViews reads the machine through every view C01 names.
func SampleViews(m *am.Machine, index am.S) *Views {
	v := &Views{Clock: map[string]uint64{}}
	// StringAll is one atomic snapshot (list and clock under one RLock)
	all := m.StringAll()
	v.Active = nz(m.ActiveStates(nil))
	v.Time = append([]uint64{}, m.Time(nil)...)
	for k, t := range m.Clock(nil) {
		v.Clock[k] = t
	}
	for _, s := range index {
		v.Ticks = append(v.Ticks, m.Tick(s))
		v.Is = append(v.Is, m.Is1(s))
		v.Not = append(v.Not, m.Not1(s))
		v.Any = append(v.Any, m.Any1(s))
	}
	v.Str = parseStr(m.String())
	// "(A:1 B:3) [C:2]" -> active part then inactive part; keep all with flag
	v.StrAll = parseStr(all)
	return v
}

type Opts struct {
	Views bool
	// HandlerTimeout for the machine (0 = default 100ms... we raise it)
	HandlerTimeout time.Duration
	// HandlerDeadline for the machine (0 = the library's default, 10 s)
	HandlerDeadline time.Duration
}

func NewMachine(c *gen.Case, r *rec.Recorder, o Opts) (*am.Machine, *InitJ, error) {
	index := gen.Index(c)
	ht := o.HandlerTimeout
	if ht == 0 {
		ht = 5 * time.Second
	}
	m := am.New(context.Background(), c.Schema, &am.Opts{
		Id:             "v",
		Tracers:        []am.Tracer{r},
		HandlerTimeout: ht,
		QueueLimit:     QueueLimit,
		// the backoff is switched on and off by the driver ("env" events)
		HandlerBackoff:  time.Hour,
		HandlerDeadline: o.HandlerDeadline,
	})
	// Opts.HandlerDeadline / Opts.HandlerBackoff never reach the machine
	// (cloneOptions in mach_utils.go copies neither): the public fields are set
	// directly, before anything runs
	m.HandlerBackoff = time.Hour
	if o.HandlerDeadline != 0 {
		m.HandlerDeadline = o.HandlerDeadline
	}
	r.Mach = m
	if err := m.VerifyStates(index); err != nil {
		return nil, nil, err
	}
	if c.On {
		for i, b := range c.Binds {
			if err := r.BindForm(m, i+1, b); err != nil {
				return nil, nil, err
			}
		}
	}
	binds := c.Binds
	if binds == nil || !c.On {
		binds = []rec.Binding{}
	}
	raw := am.Schema{}
	for k, v := range c.Schema {
		raw[k] = v
	}
	if _, ok := raw[am.StateException]; !ok {
		raw[am.StateException] = am.State{Multi: true}
	}
	init := &InitJ{
		Ev: "init", Label: c.Label, Index: index,
		Schema: SchemaJ(m.Schema()), Raw: SchemaJ(raw),
		Topo: nz(am.VerifTopology(m)),
		Hs:   HsJ{On: c.On, Binds: binds},
		Err:  m.IsErr(),
	}
	return m, init, nil
}

func scriptOf(call *gen.Call) *rec.Script {
	sc := &rec.Script{Veto: map[string]bool{}, Panic: map[string]any{},
		Nest: map[string][]rec.NestedMut{}, Stall: map[string]chan struct{}{}, Dead: map[string]bool{}}
	for _, p := range call.Dead {
		sc.Dead[rec.SKey(p[0].(int), p[1].(rec.HName))] = true
	}
	for _, v := range call.Veto {
		sc.Veto[rec.SKey(v[0].(int), v[1].(rec.HName))] = true
	}
	for _, n := range call.Nest {
		k := rec.SKey(n.At[0].(int), n.At[1].(rec.HName))
		sc.Nest[k] = append(sc.Nest[k], rec.NestedMut{Type: n.Type, Called: n.Called})
	}
	for _, p := range call.Panic {
		var v any = p[2]
		if sv, ok := v.(string); ok && strings.HasPrefix(sv, "err:") {
			v = errors.New(sv[4:])
		}
		sc.Panic[rec.SKey(p[0].(int), p[1].(rec.HName))] = v
	}
	for _, p := range call.Stall {
		ch := make(chan struct{})
		sc.Stall[rec.SKey(p[0].(int), p[1].(rec.HName))] = ch
		if !sc.Dead[rec.SKey(p[0].(int), p[1].(rec.HName))] {
			sc.AllStalls = append(sc.AllStalls, ch)
		}
	}
	return sc
}

// QueueLimit of every machine the sequential driver builds (small, so that
// handler-issued mutations reach it).
var QueueLimit uint16 = 4

// CallDeadline bounds a public call; a call that does not return in time is
// reported as "hang" (the goroutine is abandoned).
var CallDeadline = 4 * time.Second

// DoCall executes one public call and returns its result string; a panic
// escaping the call is caught and reported, a call that never returns is a hang.
func DoCall(m *am.Machine, call *gen.Call) (res string, pan string) {
	type out struct{ res, pan string }
	ch := make(chan out, 1)
	go func() {
		var o out
		defer func() {
			if r := recover(); r != nil {
				o.pan = fmt.Sprint(r)
				o.res = "panic"
			}
			ch <- o
		}()
		var rr am.Result
		switch {
		case call.Check && call.Type == "add":
			rr = m.CanAdd(call.Called, nil)
		case call.Check && call.Type == "remove":
			rr = m.CanRemove(call.Called, nil)
		case call.Type == "add":
			rr = m.Add(call.Called, nil)
		case call.Type == "remove":
			rr = m.Remove(call.Called, nil)
		case call.Type == "set":
			rr = m.Set(call.Called, nil)
		}
		o.res = rec.ResStr(rr)
	}()
	select {
	case o := <-ch:
		return o.res, o.pan
	case <-time.After(CallDeadline):
		return "hang", ""
	}
}

func retOf(m *am.Machine, r *rec.Recorder, res, pan string, errInt int, o Opts, index am.S) *RetJ {
	ret := &RetJ{Ev: "ret", Res: res, Panic: pan,
		Active: nz(m.ActiveStates(nil)),
		Time:   append([]uint64{}, m.Time(nil)...),
		Qtick:  m.QueueTick(), Qlen: int(m.QueueLen()), IsErr: m.IsErr(),
		Nested:  append([]string{}, r.NestedRes...),
		Nestedq: append([]rec.NestedObs{}, r.NestedObs...),
		ErrInt: errInt}
	if e := m.Err(); e != nil {
		ret.Err = e.Error()
		ret.ErrTimeout = errors.Is(e, am.ErrHandlerTimeout)
		for _, fp := range r.FiredPanics {
			if strings.Contains(e.Error(), strings.TrimPrefix(fp, "err:")) {
				ret.ErrHas = true
			}
		}
	}
	if o.Views {
		ret.Views = SampleViews(m, index)
	}
	return ret
}

// Run executes the case and returns the recorded lines (init, call, tx.., ret, ...).
func Run(c *gen.Case, o Opts) ([]any, error) {
	r := rec.NewRecorder()
	m, init, err := NewMachine(c, r, o)
	if err != nil {
		return nil, err
	}
	defer m.Dispose()
	defer r.ReleaseDead()
	index := gen.Index(c)
	// ErrInternal reader: counts errors and releases stalled handlers once the
	// timeout has been reported
	var errInt atomic.Int64
	go func() {
		for range m.ErrInternal() {
			errInt.Add(1)
			r.ReleaseBlocked()
		}
	}()
	lines := []any{init}
	lastRes := ""
	lines = append(lines, r.Take()...) // transitions caused by construction
	for i := range c.Calls {
		call := &c.Calls[i]
		if call.Ev == "env" {
			if call.Backoff {
				now := time.Now()
				m.LastHandlerDeadline.Store(&now)
			} else {
				m.LastHandlerDeadline.Store(nil)
			}
			lines = append(lines, call)
			continue
		}
		if call.Ev == "release" {
			// the handler that outlived HandlerDeadline returns now: its superseded
			// handler loop reports that with AddErr from its own goroutine
			// (machine.go handleCall, "deadlined handler finished").  Logged as the
			// call it is: add [Exception], result read off its transition.
			pc := &gen.Call{Ev: "call", Type: "add", Called: am.S{am.StateException},
				Via: "late-handler", Veto: [][]any{}, Nest: []gen.NestAt{}}
			r.SetScript(scriptOf(pc))
			if r.ReleaseDead() == 0 {
				continue
			}
			quiet, last := 0, -1
			for t := 0; t < 600 && quiet < 10; t++ {
				time.Sleep(5 * time.Millisecond)
				n := r.NLines()
				if n > 0 && n == last && m.QueueLen() == 0 && m.Transition() == nil {
					quiet++
				} else {
					quiet = 0
				}
				last = n
			}
			got := r.Take()
			if len(got) == 0 {
				continue // nothing was reported: not a sentence of the property
			}
			res := "canceled"
			for _, g := range got {
				if tx, ok := g.(*rec.TxJ); ok {
					if tx.Accepted {
						res = "executed"
					}
					break
				}
			}
			lines = append(lines, pc)
			lines = append(lines, got...)
			lines = append(lines, retOf(m, r, res, "", 0, o, index))
			continue
		}
		r.SetScript(scriptOf(call))
		if call.Follows {
			call.Predicted = lastRes
		}
		lines = append(lines, call)
		errBefore := errInt.Load()
		res, pan := DoCall(m, call)
		lastRes = res
		r.ReleaseStalls()
		lines = append(lines, r.Take()...)
		lines = append(lines, retOf(m, r, res, pan, int(errInt.Load()-errBefore), o, index))
		if pan != "" || res == "hang" {
			break
		}
	}
	return lines, nil
}
