package rpcdiff

import (
	"math/rand"
)

// trackedOf computes the tracked state numbers the way the property defines
// them (names in index order, in the allow list if any, not in the skip list).
// Only used to aim probes at tracked / untracked mirror entries; the verdicts
// never depend on it.
func trackedOf(c *Case, n int) []int {
	var ret []int
	for i := 0; i < n; i++ {
		ok := c.AllowedNil
		for _, a := range c.Allowed {
			if a == i {
				ok = true
			}
		}
		for _, s := range c.Skipped {
			if s == i {
				ok = false
			}
		}
		if ok {
			ret = append(ret, i)
		}
	}
	return ret
}

// setLists expresses the tracked subset `mask` of n states through the
// allow / skip lists in one of 3 ways.
func setLists(c *Case, n int, mask int, variant int) {
	var in, out []int
	for i := 0; i < n; i++ {
		if mask&(1<<i) != 0 {
			in = append(in, i)
		} else {
			out = append(out, i)
		}
	}
	c.Allowed, c.Skipped = []int{}, []int{}
	switch variant % 3 {
	case 0: // skip list only
		c.AllowedNil = true
		c.Skipped = out
	case 1: // allow list only
		c.AllowedNil = false
		c.Allowed = in
	default: // both, reversed, with an unknown name, a duplicate and an overlap
		c.AllowedNil = false
		for i := len(in) - 1; i >= 0; i-- {
			c.Allowed = append(c.Allowed, in[i])
		}
		c.Allowed = append(c.Allowed, n+1)
		if len(out) > 0 {
			c.Allowed = append(c.Allowed, out[0])
			c.Skipped = append(c.Skipped, out[0], out[0], n+2)
		}
	}
}

// mirrorIdx of a source state number (tracked states only when no schema).
func mirrorIdx(c *Case, tracked []int, state int) int {
	if c.Schema {
		return state
	}
	for k, s := range tracked {
		if s == state {
			return k
		}
	}
	return -1
}

func stdProbes(c *Case, r *rand.Rand, all bool) []Probe {
	tracked := trackedOf(c, c.N)
	var ps []Probe
	if len(tracked) > 0 {
		ps = append(ps, Probe{State: mirrorIdx(c, tracked, tracked[r.Intn(len(tracked))]), DT: 1})
		ps = append(ps, Probe{State: mirrorIdx(c, tracked, tracked[len(tracked)-1]), DT: uint64(2 + r.Intn(253))})
	}
	if c.Schema && len(tracked) < c.N {
		// an untracked mirror entry drifted
		for i := 0; i < c.N; i++ {
			if mirrorIdx(c, tracked, i) >= 0 && !contains(tracked, i) {
				ps = append(ps, Probe{State: i, DT: 1})
				break
			}
		}
	}
	ps = append(ps, Probe{State: -1, DQ: 1})
	ps = append(ps, Probe{State: -1, DM: 1})
	ps = append(ps, Probe{State: -1, DQ: uint64(1 + r.Intn(255)), DM: uint32(r.Intn(3))})
	if all {
		return ps
	}
	// two of them
	i := r.Intn(len(ps))
	j := r.Intn(len(ps))
	if i == j {
		return []Probe{ps[i]}
	}
	return []Probe{ps[i], ps[j]}
}

func contains(xs []int, x int) bool {
	for _, y := range xs {
		if x == y {
			return true
		}
	}
	return false
}

func pow(b, e int) int {
	r := 1
	for i := 0; i < e; i++ {
		r *= b
	}
	return r
}

// Exhaustive emits, for every state count nMin..nMax, every tracked subset,
// schema synced / schema-less, deep / shallow: every vector of per-state tick
// deltas in 0..maxDelta. The first clock, the queue / machine tick deltas, the
// list variant and the kind (hello / next) rotate (seeded).
func Exhaustive(nMin, nMax, maxDelta int, seed int64, emit func(*Case)) {
	r := rand.New(rand.NewSource(seed))
	id := 0
	for n := nMin; n <= nMax; n++ {
		for mask := 0; mask < 1<<n; mask++ {
			for mode := 0; mode < 4; mode++ {
				nd := pow(maxDelta+1, n)
				for dv := 0; dv < nd; dv++ {
					c := &Case{Id: id, N: n, Schema: mode&1 == 0, Shallow: mode&2 != 0}
					id++
					setLists(c, n, mask, r.Intn(3))
					if r.Intn(2) == 0 {
						c.Kind = "hello"
					} else {
						c.Kind = "next"
					}
					c.First.T = make([]uint64, n)
					second := make([]uint64, n)
					x := dv
					for i := 0; i < n; i++ {
						c.First.T[i] = uint64(r.Intn(4))
						second[i] = c.First.T[i] + uint64(x%(maxDelta+1))
						x /= maxDelta + 1
					}
					c.First.Q = uint64(1 + r.Intn(5))
					c.First.M = uint32(r.Intn(3))
					c.Snaps = []Clock{{T: second, Q: c.First.Q + uint64(r.Intn(4)),
						M: c.First.M + uint32(r.Intn(2))}}
					c.Probes = stdProbes(c, r, false)
					c.AutoProbe = true
					emit(c)
				}
			}
		}
	}
}

// ExhaustiveFirst emits the first-push (nil) and grown-schema (short) cases for
// every state count, tracked subset and mode with per-state values 0..maxVal.
func ExhaustiveFirst(nMin, nMax, maxVal int, seed int64, emit func(*Case)) {
	r := rand.New(rand.NewSource(seed ^ 0x5eed))
	id := 1 << 28
	for n := nMin; n <= nMax; n++ {
		for mask := 0; mask < 1<<n; mask++ {
			for mode := 0; mode < 4; mode++ {
				nd := pow(maxVal+1, n)
				for dv := 0; dv < nd; dv++ {
					for n1 := 0; n1 < n; n1++ {
						c := &Case{Id: id, N: n, Schema: mode&1 == 0, Shallow: mode&2 != 0}
						id++
						setLists(c, n, mask, r.Intn(3))
						second := make([]uint64, n)
						x := dv
						for i := 0; i < n; i++ {
							second[i] = uint64(x % (maxVal + 1))
							x /= maxVal + 1
						}
						if n1 == 0 {
							c.Kind = "nil"
							c.First = Clock{T: make([]uint64, n)}
						} else {
							c.Kind = "short"
							c.N1 = n1
							c.First.T = make([]uint64, n1)
							for i := 0; i < n1; i++ {
								c.First.T[i] = uint64(r.Intn(3))
								second[i] += c.First.T[i]
							}
							c.First.Q = uint64(1 + r.Intn(3))
							c.First.M = uint32(r.Intn(2))
						}
						c.Snaps = []Clock{{T: second, Q: c.First.Q + uint64(r.Intn(3)),
							M: c.First.M + uint32(r.Intn(2))}}
						c.Probes = stdProbes(c, r, false)
						c.AutoProbe = true
						emit(c)
					}
				}
			}
		}
	}
}

var (
	bndDelta = []uint64{0, 1, 2, 3, 4, 5, 255, 256, 257, 65535, 65536, 65537,
		65536 + 255, 65536 + 256, 1<<32 - 1, 1 << 32, 1<<32 + 1, 1<<32 + 256, 1<<33 + 7}
	bndBaseT = []uint64{0, 1, 2, 3, 254, 255, 65535, 1<<32 - 2, 1<<32 + 5, 1 << 40,
		1<<63 + 1}
	bndBaseQ = []uint64{1, 2, 3, 255, 65535, 65536, 1<<32 - 1, 1 << 48}
	bndDQ    = []uint64{1, 2, 255, 256, 257, 65535, 65536, 65537, 65536 + 256,
		65536 * 3, 1<<32 + 1}
	bndBaseM = []uint32{0, 1, 2, 255, 256, 1 << 31}
	bndDM    = []uint32{1, 2, 255, 256, 257, 511, 512}
)

func small(r *rand.Rand, k int) uint64 { return uint64(r.Intn(k)) }

// Sampled emits cnt random cases: state counts 1..6, random allow / skip lists
// (with unknown names and duplicates), all four kinds, per-mutation chains, and
// deltas at the uint8 / uint16 / uint32 boundaries of the message fields.
func Sampled(cnt int, seed int64, emit func(*Case)) {
	r := rand.New(rand.NewSource(seed ^ 0xabcdef))
	for id := 0; id < cnt; id++ {
		n := 1 + r.Intn(6)
		c := &Case{Id: 1<<29 + id, N: n}
		// lists
		if r.Intn(3) == 0 {
			setLists(c, n, r.Intn(1<<n), r.Intn(3))
		} else {
			c.AllowedNil = r.Intn(2) == 0
			c.Allowed, c.Skipped = []int{}, []int{}
			for i := 0; i < n+2; i++ {
				if !c.AllowedNil && r.Intn(3) != 0 {
					c.Allowed = append(c.Allowed, r.Intn(n+2))
				}
				if r.Intn(4) == 0 {
					c.Skipped = append(c.Skipped, r.Intn(n+2))
				}
			}
		}
		c.Schema = r.Intn(2) == 0
		c.Shallow = r.Intn(3) == 0
		c.Muts = !c.Shallow && r.Intn(4) == 0
		switch k := r.Intn(20); {
		case k < 7:
			c.Kind = "hello"
		case k < 14:
			c.Kind = "next"
		case k < 17:
			c.Kind = "nil"
		default:
			c.Kind = "short"
			if n < 2 {
				c.Kind = "next"
			}
		}
		// what may wrap: 0 nothing, 1 a tick, 2 the queue tick, 3 the machine
		// tick, 4 anything
		wrap := r.Intn(6)
		n1 := n
		switch c.Kind {
		case "nil":
			c.First = Clock{T: make([]uint64, n)}
		case "short":
			n1 = 1 + r.Intn(n-1)
			c.N1 = n1
		}
		if c.Kind != "nil" {
			c.First.T = make([]uint64, n1)
			for i := range c.First.T {
				if r.Intn(3) == 0 {
					c.First.T[i] = bndBaseT[r.Intn(len(bndBaseT))]
				} else {
					c.First.T[i] = small(r, 6)
				}
			}
			if r.Intn(3) == 0 {
				c.First.Q = bndBaseQ[r.Intn(len(bndBaseQ))]
			} else {
				c.First.Q = 1 + small(r, 9)
			}
			if r.Intn(3) == 0 {
				c.First.M = bndBaseM[r.Intn(len(bndBaseM))]
			} else {
				c.First.M = uint32(r.Intn(3))
			}
		}
		steps := 1
		if c.Muts {
			steps = 1 + r.Intn(4)
		}
		cur := Clock{T: make([]uint64, n), Q: c.First.Q, M: c.First.M}
		copy(cur.T, c.First.T)
		for s := 0; s < steps; s++ {
			next := Clock{T: make([]uint64, n), Q: cur.Q, M: cur.M}
			for i := range next.T {
				d := small(r, 5)
				if (wrap == 1 || wrap >= 4) && r.Intn(3) == 0 {
					d = bndDelta[r.Intn(len(bndDelta))]
				}
				next.T[i] = cur.T[i] + d
				if next.T[i] < cur.T[i] {
					next.T[i] = cur.T[i]
				}
			}
			dq := small(r, 4)
			if (wrap == 2 || wrap >= 4) && r.Intn(2) == 0 {
				dq = bndDQ[r.Intn(len(bndDQ))]
			}
			next.Q = cur.Q + dq
			dm := uint32(r.Intn(2))
			if (wrap == 3 || wrap >= 4) && r.Intn(2) == 0 {
				dm = bndDM[r.Intn(len(bndDM))]
			}
			if cur.M+dm >= cur.M {
				next.M = cur.M + dm
			}
			c.Snaps = append(c.Snaps, next)
			cur = next
		}
		c.Probes = stdProbes(c, r, true)
		c.AutoProbe = true
		emit(c)
	}
}
