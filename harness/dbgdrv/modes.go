package dbgdrv

import (
	"encoding/json"
	"fmt"
	"math/rand"
	"os"
	"path/filepath"
	"time"

	am "github.com/pancsta/asyncmachine-go/pkg/machine"
	"github.com/pancsta/asyncmachine-go/pkg/telemetry/dbg"
	"github.com/pancsta/asyncmachine-go/tools/debugger/server"
	"github.com/pancsta/asyncmachine-go/tools/debugger/types"
)

// DefaultInitF are the filter states after Start with the CLI defaults.
var DefaultInitF = am.S{ss.FilterAutoCanceledTx, ss.FilterChecks, ss.FilterHealth, ss.FilterOutGroup}

// NoGroupInitF: the same without --filter-group.
var NoGroupInitF = am.S{ss.FilterAutoCanceledTx, ss.FilterChecks, ss.FilterHealth}

// ChecksInitF: reachable from the defaults by toggles (spec: InitFChecks).
var ChecksInitF = am.S{ss.FilterChecks, ss.FilterHealth}

// ---------------------------------------------------------------------------
// (a) real telemetry, fed through the ingestion states

// StreamCase runs one generated source machine, captures its telemetry from
// the wire and feeds it to the session's debugger in batches with commands in
// between.
func StreamCase(s *Session, capt *Capture, addr string, r *rand.Rand, label string, ncalls, ncmds int) error {
	sc := GenSource(r, label, ncalls)
	run, err := RunSource(sc, addr)
	if err != nil {
		return err
	}
	defer run.Dispose()
	deadline := time.Now().Add(Settle)
	for {
		ns, n := capt.Count(label)
		if ns >= 1 && n >= run.Sent {
			break
		}
		if time.Now().After(deadline) {
			return fmt.Errorf("telemetry of %s incomplete: %d/%d messages", label, n, run.Sent)
		}
		time.Sleep(200 * time.Microsecond)
	}
	// the tracer must not send more than expected
	time.Sleep(2 * time.Millisecond)
	schemas, msgs := capt.Take(label)
	if len(msgs) != run.Sent {
		return fmt.Errorf("telemetry of %s: %d messages, expected %d", label, len(msgs), run.Sent)
	}
	Stamp(msgs, time.Now(), r)
	if err := s.Open(label, schemas[0]); err != nil {
		return err
	}
	// 1..3 batches
	nb := 1 + r.Intn(3)
	cuts := []int{0}
	for i := 1; i < nb; i++ {
		cuts = append(cuts, r.Intn(len(msgs)+1))
	}
	cuts = append(cuts, len(msgs))
	for i := 1; i < len(cuts); i++ {
		for j := i; j > 0 && cuts[j] < cuts[j-1]; j-- {
			cuts[j], cuts[j-1] = cuts[j-1], cuts[j]
		}
	}
	for i := 0; i+1 < len(cuts); i++ {
		b := msgs[cuts[i]:cuts[i+1]]
		if len(b) > 0 {
			if err := s.Ingest(b); err != nil {
				return err
			}
		}
		if cuts[i+1] == 0 {
			continue
		}
		for _, c := range RandCmds(r, ncmds, cuts[i+1]) {
			if err := s.Do(c); err != nil {
				return err
			}
		}
	}
	return s.Final(label, "direct", run.Src, true)
}

// TcpGroup runs several source machines CONCURRENTLY against the debugger's
// real RPC server (server.AcceptConn: net/rpc, debounced queue) and compares
// every client at the end.
func TcpGroup(h *Headless, r *rand.Rand, prefix string, nclients, ncalls int, lines *[]any) error {
	addr, err := h.Listen()
	if err != nil {
		return err
	}
	type res struct {
		run *SourceRun
		err error
		id  string
	}
	ch := make(chan res, nclients)
	cases := make([]*SourceCase, nclients)
	for i := range cases {
		cases[i] = GenSource(r, fmt.Sprintf("%s-%d", prefix, i), ncalls)
	}
	for _, sc := range cases {
		go func(sc *SourceCase) {
			run, err := RunSource(sc, addr)
			ch <- res{run, err, sc.Id}
		}(sc)
	}
	runs := map[string]*SourceRun{}
	for range cases {
		x := <-ch
		if x.err != nil {
			return x.err
		}
		runs[x.id] = x.run
	}
	defer func() {
		for _, x := range runs {
			x.Dispose()
		}
	}()
	deadline := time.Now().Add(Settle)
	for {
		done := true
		_ = h.Eval("cnt", func() {
			for id, run := range runs {
				c := h.D.Clients[id]
				if c == nil || len(c.MsgTxs) < run.Sent {
					done = false
				}
			}
		})
		if done {
			break
		}
		if time.Now().After(deadline) {
			return fmt.Errorf("tcp telemetry incomplete")
		}
		time.Sleep(20 * time.Millisecond)
	}
	if err := h.Quiesce(); err != nil {
		return err
	}
	for _, sc := range cases {
		if err := h.FinalOf(lines, sc.Id, sc.Id, "tcp", runs[sc.Id].Src, false); err != nil {
			return err
		}
	}
	return nil
}

// ---------------------------------------------------------------------------
// (c) TLC-generated behaviours: record kinds + commands

// KindIndex is the schema of the synthetic streams (spec: CSch).
var KindIndex = am.S{"A", "B", "Healthcheck", am.StateException}

func kindSchema(id string) *dbg.DbgMsgStruct {
	sch := am.Schema{"A": {}, "B": {Auto: true}, "Healthcheck": {Multi: true}, am.StateException: {Multi: true}}
	return &dbg.DbgMsgStruct{ID: id, StatesIndex: KindIndex, States: sch}
}

// KindGen turns record kinds into DbgMsgTx messages (spec: KRec).
type KindGen struct {
	id     string
	n      int
	clocks am.Time
	qt     uint64
	ntok   uint64
	t      time.Time
}

func NewKindGen(id string) *KindGen {
	return &KindGen{id: id, clocks: am.Time{0, 0, 0, 0}, qt: 1, t: time.Now()}
}

func (g *KindGen) Next(kind string) (*dbg.DbgMsgTx, error) {
	m := &dbg.DbgMsgTx{MachineID: g.id, ID: fmt.Sprintf("k%d", g.n), Accepted: true, Type: am.MutationAdd,
		CalledStatesIdxs: []int{0}, QueueTick: g.qt}
	bump := func(i int) { g.clocks[i]++ }
	switch kind {
	case "tx":
		g.qt++
		m.QueueTick = g.qt
		bump(0)
	case "cx":
		g.qt++
		m.QueueTick = g.qt
		m.Accepted = false
	case "em":
		g.qt++
		m.QueueTick = g.qt
	case "ck":
		m.IsCheck = true
	case "qu":
		m.IsQueued = true
		m.MutQueueTick = g.qt + 1
	case "qa":
		g.ntok++
		m.IsQueued, m.IsAuto, m.MutQueueToken, m.CalledStatesIdxs = true, true, g.ntok, []int{1}
	case "aa":
		m.IsAuto, m.MutQueueToken, m.CalledStatesIdxs = true, g.ntok, []int{1}
		bump(1)
	case "ac":
		m.IsAuto, m.MutQueueToken, m.CalledStatesIdxs, m.Accepted = true, g.ntok, []int{1}, false
	case "he":
		g.qt++
		m.QueueTick = g.qt
		m.CalledStatesIdxs = []int{2}
		bump(2)
	default:
		return nil, fmt.Errorf("unknown kind %q", kind)
	}
	m.Clocks = append(am.Time{}, g.clocks...)
	g.n++
	g.t = g.t.Add(10 * time.Nanosecond)
	tt := g.t
	m.Time = &tt
	return m, nil
}

// SeqStep is one step of a TLC-generated behaviour (MCDebugger hist).
type SeqStep struct {
	A    string `json:"a"`
	Kind string `json:"kind"`
	Cmd  struct {
		Op   string `json:"op"`
		K    int    `json:"k"`
		Tool string `json:"tool"`
	} `json:"cmd"`
	V struct {
		Cursor   int      `json:"cursor"`
		Tail     bool     `json:"tail"`
		Filters  []string `json:"filters"`
		Filtered []int    `json:"filtered"`
	} `json:"v"`
}

// ReplaySeq replays one behaviour on the real debugger; mismatches with the
// view TLC predicted are returned (the trace is validated by TLC anyway).
func ReplaySeq(s *Session, label string, seq []SeqStep) (mism []string, err error) {
	if err := s.Open(label, kindSchema(label)); err != nil {
		return nil, err
	}
	g := NewKindGen(label)
	for i, st := range seq {
		switch st.A {
		case "ingest":
			m, err := g.Next(st.Kind)
			if err != nil {
				return nil, err
			}
			err = s.Ingest([]*dbg.DbgMsgTx{m})
			if n := len(s.Lines); n > 0 {
				if l, ok := s.Lines[n-1].(map[string]any); ok && l["ev"] == "ingest" {
					l["kind"] = st.Kind
				}
			}
			if err != nil {
				return nil, err
			}
		case "cmd":
			if err := s.Do(Cmd{Op: st.Cmd.Op, K: st.Cmd.K, Tool: st.Cmd.Tool}); err != nil {
				return nil, err
			}
		}
		v, err := s.H.SnapView()
		if err != nil {
			return nil, err
		}
		want := append([]string{}, st.V.Filters...)
		if v.Cursor != st.V.Cursor || v.Tail != st.V.Tail || !eqInts(v.Filtered, st.V.Filtered) ||
			!eqSet(v.Filters, want) {
			mism = append(mism, fmt.Sprintf("%s step %d (%s %s%s%d): real cursor=%d tail=%v filtered=%v filters=%v, TLC cursor=%d tail=%v filtered=%v filters=%v",
				label, i, st.A, st.Kind, st.Cmd.Op+st.Cmd.Tool, st.Cmd.K, v.Cursor, v.Tail, v.Filtered, v.Filters,
				st.V.Cursor, st.V.Tail, st.V.Filtered, want))
		}
	}
	return mism, s.Final(label, "kinds", nil, true)
}

func eqInts(a, b []int) bool {
	if len(a) != len(b) {
		return false
	}
	for i := range a {
		if a[i] != b[i] {
			return false
		}
	}
	return true
}

func eqSet(a, b []string) bool {
	m := map[string]int{}
	for _, x := range a {
		m[x] |= 1
	}
	for _, x := range b {
		m[x] |= 2
	}
	for _, v := range m {
		if v != 3 {
			return false
		}
	}
	return true
}

// ---------------------------------------------------------------------------
// (b) function-level look-ups over generated record lists

// LookupCase builds a server.Client from generated lists and queries the real
// look-up functions.  mono: lists as a machine produces them (non-decreasing
// queue ticks / time sums / times, descending error index); otherwise
// arbitrary lists.
func LookupCase(r *rand.Rand, n int, mono bool) map[string]any {
	c := &server.Client{Exportable: &server.Exportable{}}
	var qt, sum uint64 = 1, 0
	t := time.Unix(1_700_000_000, 0)
	var sums []uint64
	tok := uint64(0)
	for i := 0; i < n; i++ {
		if mono {
			qt += uint64(r.Intn(3)) / 2 * uint64(1+r.Intn(2)) // 0 often, sometimes 1..2
			if r.Float64() < 0.4 {
				qt++
			}
			sum += uint64(r.Intn(3))
			if r.Float64() < 0.7 {
				t = t.Add(10 * time.Nanosecond)
			}
		} else {
			qt = uint64(r.Intn(n + 2))
			sum = uint64(r.Intn(2*n + 1))
			t = time.Unix(1_700_000_000, int64(10*r.Intn(n+1)))
		}
		tt := t
		m := &dbg.DbgMsgTx{ID: fmt.Sprintf("t%d", i), QueueTick: qt, Time: &tt}
		if !mono && r.Float64() < 0.15 && i > 0 {
			m.ID = fmt.Sprintf("t%d", r.Intn(i)) // duplicate id
		}
		if r.Float64() < 0.3 {
			m.IsQueued = true
			if r.Float64() < 0.5 {
				m.MutQueueTick = qt + uint64(r.Intn(2))
			} else {
				tok++
				m.MutQueueToken = tok
				m.IsAuto = true
			}
		} else if tok > 0 && r.Float64() < 0.4 {
			m.MutQueueToken = tok - uint64(r.Intn(2))
		}
		c.MsgTxs = append(c.MsgTxs, m)
		c.MsgTxsParsed = append(c.MsgTxsParsed, &types.MsgTxParsed{TimeSum: sum})
		sums = append(sums, sum)
		if r.Float64() < 0.25 {
			c.Errors = append([]int{i}, c.Errors...)
		}
		if r.Float64() < 0.6 {
			c.MsgTxsFiltered = append(c.MsgTxsFiltered, i)
		}
	}
	if !mono && len(c.Errors) > 1 && r.Float64() < 0.5 {
		r.Shuffle(len(c.Errors), func(i, j int) { c.Errors[i], c.Errors[j] = c.Errors[j], c.Errors[i] })
	}
	rk := TimeRanks(c.MsgTxs)
	recs := []map[string]any{}
	for i, m := range c.MsgTxs {
		recs = append(recs, map[string]any{"id": m.ID, "qt": m.QueueTick, "mqt": m.MutQueueTick, "tok": m.MutQueueToken,
			"queued": m.IsQueued, "ht": rk[i]})
	}
	if sums == nil {
		sums = []uint64{}
	}
	return map[string]any{"ev": "lookup", "recs": recs, "sums": sums, "errors": nzi(c.Errors),
		"filtered": nzi(c.MsgTxsFiltered), "lk": DoLookups(c, true), "gen": map[string]any{"mono": mono}}
}

// ---------------------------------------------------------------------------

// WriteLines writes ndjson.
func WriteLines(path string, lines []any) error {
	f, err := os.Create(path)
	if err != nil {
		return err
	}
	defer f.Close()
	enc := json.NewEncoder(f)
	for _, l := range lines {
		if err := enc.Encode(l); err != nil {
			return err
		}
	}
	return nil
}

// TmpDir makes a scratch dir.
func TmpDir(tmp, pfx string) (string, error) {
	d, err := os.MkdirTemp(tmp, pfx)
	if err != nil {
		return "", err
	}
	return filepath.Join(d), nil
}
