#!/usr/bin/env python3
"""Shared machinery of the checks: harness build, evidence, known findings,
violation reporting."""
import hashlib, json, os, shutil, subprocess, sys, tempfile, time

ROOT = os.path.abspath(os.path.join(os.path.dirname(os.path.abspath(__file__)), ".."))
REPO = os.environ.get("VERIF_REPO", "/repo")
GO = "/root/go/pkg/mod/golang.org/toolchain@v0.0.1-go1.25.0.linux-amd64/bin/go"
TMP = os.environ.get("TMPDIR", "/tmp")
BUILD = os.path.join(ROOT, ".build")
HARNESS = os.path.join(ROOT, "harness")

GOENV = dict(GOFLAGS="-mod=mod", GOPROXY="off", GOSUMDB="off", GOTOOLCHAIN="local")


def goenv():
    e = dict(os.environ)
    e.update(GOENV)
    return e


def gobin():
    return GO if os.path.exists(GO) else "go"


class Inconclusive(Exception):
    pass


def build_harness(race=False):
    """(Re)build the harness binary against /repo's CURRENT working tree with the
    verif tag.  A build failure is inconclusive (exit 2), never a violation.
    VERIF_REPO=<dir> builds against another checkout (used to try seeded changes
    in scratch worktrees without touching /repo): the harness is copied and its
    replace directive rewritten."""
    os.makedirs(BUILD, exist_ok=True)
    hdir = HARNESS
    suffix = ""
    if os.path.abspath(REPO) != "/repo":
        suffix = "-" + hashlib.sha1(os.path.abspath(REPO).encode()).hexdigest()[:8]
        hdir = os.path.join(BUILD, "harness" + suffix)
        shutil.rmtree(hdir, ignore_errors=True)
        subset = os.environ.get("VERIF_HARNESS_SUBSET")
        if subset:
            # development aid: only the named packages / sub-commands (a scratch
            # worktree may lack hooks that other engines of the harness need)
            os.makedirs(os.path.join(hdir, "cmd", "amverif"))
            shutil.copy(os.path.join(HARNESS, "go.mod"), hdir)
            shutil.copy(os.path.join(HARNESS, "cmd", "amverif", "main.go"), os.path.join(hdir, "cmd", "amverif"))
            for item in sorted(set(subset.split(","))):
                if os.path.isdir(os.path.join(HARNESS, item)):
                    shutil.copytree(os.path.join(HARNESS, item), os.path.join(hdir, item))
                if os.path.exists(os.path.join(HARNESS, "cmd", "amverif", item + ".go")):
                    shutil.copy(os.path.join(HARNESS, "cmd", "amverif", item + ".go"),
                                os.path.join(hdir, "cmd", "amverif"))
        else:
            shutil.copytree(HARNESS, hdir)
        tg = os.environ.get("VERIF_TABLE_GEN")
        if tg and os.path.exists(tg) and os.path.isdir(os.path.join(hdir, "apidrv")):
            shutil.copy(tg, os.path.join(hdir, "apidrv", "table_gen.go"))
        gm = open(os.path.join(hdir, "go.mod")).read().replace("=> /repo", "=> " + os.path.abspath(REPO))
        open(os.path.join(hdir, "go.mod"), "w").write(gm)
    # the replace directive of harness/go.mod points at the repo; go.sum is the repo's
    shutil.copy(os.path.join(REPO, "go.sum"), os.path.join(hdir, "go.sum"))
    out = os.path.join(BUILD, ("amverif-race" if race else "amverif") + suffix)
    cmd = [gobin(), "build", "-tags", "verif"]
    if race:
        cmd.append("-race")
    # checks may run side by side: build under a private name, then rename atomically (a
    # process that is executing the previous binary keeps its inode)
    tmp_out = "%s.%d" % (out, os.getpid())
    cmd += ["-o", tmp_out, "./cmd/amverif"]
    p = subprocess.run(cmd, cwd=hdir, env=goenv(), stdout=subprocess.PIPE,
                       stderr=subprocess.STDOUT, text=True)
    if p.returncode != 0:
        try:
            os.remove(tmp_out)
        except OSError:
            pass
        raise Inconclusive("harness build failed:\n" + p.stdout[-4000:])
    os.replace(tmp_out, out)
    return out


def scratch(prefix):
    return tempfile.mkdtemp(prefix="verif-%s-" % prefix, dir=TMP)


def run(cmd, cwd=None, timeout=None, env=None):
    p = subprocess.run(cmd, cwd=cwd, env=env or goenv(), stdout=subprocess.PIPE,
                       stderr=subprocess.STDOUT, text=True, timeout=timeout)
    return p.returncode, p.stdout


def seed():
    try:
        return int(os.environ.get("VERIF_SEED", "1"))
    except ValueError:
        return 1


# ---------------------------------------------------------------------------
# known findings

def load_findings():
    path = os.path.join(ROOT, "findings", "known_findings.jsonl")
    out = []
    if os.path.exists(path):
        for l in open(path):
            l = l.strip()
            if l and not l.startswith("#") and not l.startswith("fixed:"):
                out.append(json.loads(l))
    return out


def match_finding(prop, signature):
    """A violation is known iff a status=known entry of the same property has a
    signature whose every key equals the violation's signature."""
    for f in load_findings():
        if f.get("status") != "known" or f.get("property") != prop:
            continue
        sig = f.get("signature", {})
        if sig and all(signature.get(k) == v for k, v in sig.items()):
            return f
    return None


# ---------------------------------------------------------------------------
# reporting

class Report:
    def __init__(self, prop, tier, level):
        self.prop, self.tier, self.level = prop, tier, level
        self.t0 = time.time()
        self.violations = []      # (signature, replay_path, text)
        self.known = {}           # finding id -> text
        self.drift = []
        self.coverage = dict(samples=[])
        self.assumptions = []
        self.notes = []

    def violation(self, signature, replay_obj, text):
        f = match_finding(self.prop, signature)
        if f:
            self.known.setdefault(f["id"], f.get("what", text))
            return
        d = os.path.join(ROOT, "replays")
        os.makedirs(d, exist_ok=True)
        h = hashlib.sha1(json.dumps(replay_obj, sort_keys=True).encode()).hexdigest()[:12]
        path = os.path.join(d, "%s-%s.json" % (self.prop, h))
        with open(path, "w") as fh:
            json.dump(replay_obj, fh)
        self.violations.append((signature, path, text))

    def finish(self):
        wall = time.time() - self.t0
        ev = dict(property_id=self.prop, tier=self.tier, seed=seed(), level=self.level,
                  coverage=self.coverage, assumptions=self.assumptions,
                  wall_s=round(wall, 2), violations=len(self.violations))
        if self.drift:
            ev["coverage"]["spec_drift"] = self.drift[:20]
        if self.notes:
            ev["coverage"]["notes"] = self.notes
        if self.known:
            ev["coverage"]["known_findings"] = sorted(self.known)
        # evidence/ describes /repo; a run against a scratch checkout (VERIF_REPO) writes elsewhere
        evdir = os.path.join(ROOT, "evidence") if os.path.abspath(REPO) == "/repo" else \
            os.path.join(BUILD, "evidence-scratch")
        os.makedirs(evdir, exist_ok=True)
        with open(os.path.join(evdir, self.prop + ".json"), "w") as fh:
            json.dump(ev, fh, indent=1, default=str)
        for fid, what in sorted(self.known.items()):
            print("KNOWN-FINDING: property=%s %s (%s)" % (self.prop, what, fid))
        for d in self.drift[:10]:
            print("SPEC-DRIFT property=%s %s" % (self.prop, d))
        seen = set()
        for sig, path, text in self.violations:
            if path in seen:
                continue
            seen.add(path)
            print("VIOLATION property=%s replay=%s" % (self.prop, path))
            print("  " + text[:600])
        print("%s tier=%s seed=%d wall=%.1fs violations=%d known=%d drift=%d" % (
            self.prop, self.tier, seed(), wall, len(seen), len(self.known), len(self.drift)))
        return 1 if self.violations else 0
