#!/bin/sh
# Offline setup: build the Go harness against /repo (verif tag) and parse every TLA+ module.
set -e
cd "$(dirname "$0")"
export GOFLAGS=-mod=mod GOPROXY=off GOSUMDB=off GOTOOLCHAIN=local
GO=/root/go/pkg/mod/golang.org/toolchain@v0.0.1-go1.25.0.linux-amd64/bin/go
[ -x "$GO" ] || GO=go
mkdir -p .build evidence replays
cp /repo/go.sum harness/go.sum
(cd harness && "$GO" build -tags verif -o ../.build/amverif ./cmd/amverif)
T=$(mktemp -d)
cp spec/*.tla "$T"/
fail=0
for f in spec/MC*.tla spec/Trace*.tla; do
  m=$(basename "$f" .tla)
  (cd "$T" && tla-sany "$m.tla" > "$m.sany.log" 2>&1) || { echo "SANY failed for $m"; tail -20 "$T/$m.sany.log"; fail=1; }
done
rm -rf "$T"
[ "$fail" = 0 ] || exit 1
echo setup ok
