----------------------------- MODULE TraceQueue -----------------------------
(* Validation of gate sequences recorded from the REAL machine               *)
(* (harness/queuedrv) against Queue.tla.  Every "gate" event says: caller c   *)
(* ran from its previous gate to gate p, and what the machine's queue length, *)
(* queue tick and processing flag were when it parked.  The event must be     *)
(* the (unique) Queue action of c; when it is not, the state is re-aligned    *)
(* with the log and the event lands in `drift`.  The C04 formulas are         *)
(* evaluated on the LOGGED values (`viol`).                                   *)
EXTENDS Queue, Json

CONSTANT TraceFile
Trace == ndJsonDeserialize(TraceFile)

VARIABLES l, viol, drift, nexec, hopen
tvars == <<vars, l, viol, drift, nexec, hopen>>

Line == Trace[l]

Reset ==
  /\ pc' = [c \in Callers |-> "start"]
  /\ k' = [c \in Callers |-> 1]
  /\ queue' = <<>> /\ qtick' = 1 /\ pending' = 0 /\ qlen' = 0
  /\ processing' = FALSE /\ owner' = 0
  /\ popped' = <<>> /\ ticks' = <<>> /\ results' = <<>> /\ wq' = {}

TraceInit ==
  /\ Init
  /\ l = 1 /\ viol = {} /\ drift = {} /\ nexec = 0 /\ hopen = 0

EvInit ==
  /\ Line.ev = "qinit"
  /\ Reset
  /\ hopen' = 0
  /\ nexec' = nexec + 1
  /\ drift' = drift \cup
       (IF Line.callers = Cardinality(Callers) /\ Line.mutsPer = MutsPer
           /\ {10 * Line.nest[i][1] + Line.nest[i][2] : i \in 1..Len(Line.nest)} = NestCodes
           /\ {10 * Line.prep[i][1] + Line.prep[i][2] : i \in 1..Len(Line.prep)} = PrepCodes
           /\ {10 * Line.veto[i][1] + Line.veto[i][2] : i \in 1..Len(Line.veto)} = VetoCodes
           \* no-op mutations: <c, k> of a caller, <c, k, 1> the Add nested by <c, k>
           /\ {(IF Len(Line.noop[i]) = 3 THEN 100 ELSE 0) + 10 * Line.noop[i][1] + Line.noop[i][2]
                  : i \in 1..Len(Line.noop)} = NoopCodes
        THEN {} ELSE {<<l, "scenario">>})
  /\ UNCHANGED viol

(* the harness gates "start"/"return" are not machine hook points: `return`   *)
(* corresponds to Queue!Return's source, `start` to its target                *)
Matches(c, x) ==
  /\ pc'[c] = (IF x.point = "start" THEN "start" ELSE x.point)
  /\ qlen' = x.qlen /\ qtick' = x.qtick /\ processing' = x.proc
  /\ wq' = {x.wqopen[i] : i \in 1..Len(x.wqopen)}

(* WhenQueueClosed on the LOGGED values: the open channels, the queue tick     *)
(* (read before the channels) and the gates the callers are parked at.  `in a  *)
(* transition` = somebody is parked at pq.popped - the weaker reading, it      *)
(* does not ask whether that transition is the one holding the tick            *)
WqLogged(c, x) ==
  WqOk({x.wqopen[i] : i \in 1..Len(x.wqopen)}, x.qtick,
       \E d \in Callers : (IF d = c THEN x.point ELSE pc[d]) = "pq.popped")

(* Mutex on the logged gates: nobody else may be inside the drain loop when   *)
(* a caller parks inside it                                                   *)
MutexLogged(c, p) ==
  (p \in {"pq.casWon", "pq.popped", "pq.loopExit"}) =>
     \A d \in Callers \ {c} : pc[d] \notin {"pq.casWon", "pq.popped", "pq.loopExit"}

EvEvalIn ==   \* harness gate inside an eval function: not a machine hook point
  /\ Line.ev = "gate" /\ Line.point = "eval.in"
  /\ UNCHANGED <<vars, viol, drift, nexec, hopen>>

EvGate ==
  /\ Line.ev = "gate" /\ Line.point \notin {"stuck", "eval.in"}
  /\ LET x == Line
         c == x.role
         M == Step(c) /\ Matches(c, x)
         v == (IF MutexLogged(c, x.point) THEN {} ELSE {<<l, "mutex">>})
              \cup (IF x.point = "return" /\ x.res = "queued" /\ c \in Callers
                       /\ Id(c, k[c]) \in DOMAIN ticks /\ ticks[Id(c, k[c])] # x.tick
                    THEN {<<l, "tick">>} ELSE {})
              \* WhenQueue(t) "closes once it has been processed": the queue tick is
              \* past t  =>  the transition of t and its subscriptions are done
              \* (also when it was accepted without moving any clock tick)
              \cup (IF c \in Callers /\ ~WqLogged(c, x)
                    THEN {<<l, "whenqueue-late">>} ELSE {})
     IN \/ /\ M
           /\ drift' = drift
        \/ /\ ~ENABLED M
           \* re-align with the log
           /\ pc' = [pc EXCEPT ![c] = x.point]
           /\ qlen' = x.qlen /\ qtick' = x.qtick /\ processing' = x.proc
           /\ owner' = IF x.proc THEN owner ELSE 0
           \* keep the queue as long as the logged length (unknown entries are placeholders)
           /\ queue' = IF x.qlen <= Len(queue) THEN SubSeq(queue, 1, x.qlen)
                        ELSE queue \o [i \in 1..(x.qlen - Len(queue)) |-> [id |-> <<0, 0>>, tick |-> 0]]
           /\ wq' = {x.wqopen[i] : i \in 1..Len(x.wqopen)}
           /\ UNCHANGED <<k, pending, popped, ticks, results>>
           /\ drift' = drift \cup {<<l, "gate:" \o x.point>>}
     /\ viol' = viol \cup v
  /\ UNCHANGED <<nexec, hopen>>

EvStuck ==
  /\ Line.ev = "gate" /\ Line.point = "stuck"
  /\ drift' = drift \cup {<<l, "stuck">>}
  /\ UNCHANGED <<vars, viol, nexec, hopen>>

(* no two handlers of one machine run at the same time                        *)
EvHandler ==
  /\ Line.ev \in {"hstart", "hend"}
  /\ hopen' = Line.open
  /\ viol' = viol \cup (IF Line.open > 1 THEN {<<l, "handlers-overlap">>} ELSE {})
  /\ UNCHANGED <<vars, drift, nexec>>

EvEnd ==
  /\ Line.ev = "qend"
  /\ LET x == Line
         rs == x.returned
         v == UNION {
           \* an idle machine never sits on a non-empty queue
           IF x.stuck \/ (x.qlen = 0 /\ ~x.proc) THEN {} ELSE {<<l, "stranded">>},
           \* every mutation that returned a queue tick has been processed
           IF x.stuck \/ \A i \in 1..Len(rs) : (rs[i].res = "queued") => rs[i].tick <= x.qtick
           THEN {} ELSE {<<l, "tick-not-processed">>},
           \* ... and WhenQueue(tick) is closed, accepted or canceled
           IF x.stuck \/ \A i \in 1..Len(rs) : ~rs[i].wqOpen THEN {} ELSE {<<l, "whenqueue-open">>},
           \* nothing lost: every mutation that was not vetoed ended active
           IF x.stuck \/ \A i \in 1..Len(rs) :
                (rs[i].res \in {"queued", "executed"} /\ ~rs[i].vetoed) => rs[i].active
           THEN {} ELSE {<<l, "lost">>},
           IF \A i \in 1..Len(rs) : rs[i].vetoed => ~rs[i].active THEN {} ELSE {<<l, "veto-ignored">>},
           \* a nested mutation is queued, not run inside its parent
           IF \A i \in 1..Len(rs) : rs[i].role = 0 => rs[i].res = "queued"
           THEN {} ELSE {<<l, "nested-not-queued">>},
           \* processed in the order of the queue ticks
           IF \A i, j \in 1..Len(rs) :
                (rs[i].tick > 0 /\ rs[j].tick > 0 /\ rs[i].tick < rs[j].tick) =>
                   \A a, b \in 1..Len(x.popped) :
                      (x.popped[a] = rs[i].state /\ x.popped[b] = rs[j].state) => a < b
           THEN {} ELSE {<<l, "tick-order">>}}
         d == IF x.free THEN {} ELSE UNION {   \* free-running executions log no gates
           IF x.stuck THEN {<<l, "stuck-execution">>} ELSE {},
           \* the tracer sees transitions only: an Eval (odd k of a prepended op) has none
           IF Len(x.popped) = Cardinality({i \in 1..Len(popped) :
                                  ~(Len(popped[i]) = 2 /\ IsPrep(popped[i][1], popped[i][2])
                                    /\ popped[i][2] % 2 = 1)})
           THEN {} ELSE {<<l, "popped">>},
           IF x.stuck \/ \A c \in Callers : pc[c] \in {"end", "return"}
           THEN {} ELSE {<<l, "not-all-ended">>}}
     IN /\ viol' = viol \cup v
        /\ drift' = drift \cup d
  /\ UNCHANGED <<vars, nexec, hopen>>

Done ==
  /\ l = Len(Trace) + 1
  /\ PrintT(<<"RESULT", ToJson([lines |-> Len(Trace), ntx |-> nexec,
                                viol |-> viol, drift |-> drift])>>)
  /\ UNCHANGED <<vars, viol, drift, nexec, hopen>>

(* the role's own "end" is not logged: after its last `return` gate the       *)
(* caller's goroutine finishes; Queue!Return is taken silently with the next  *)
(* event of that caller or at the end                                         *)
TraceNext ==
  \/ /\ l <= Len(Trace)
     /\ (EvInit \/ EvGate \/ EvEvalIn \/ EvStuck \/ EvHandler \/ EvEnd)
     /\ l' = l + 1
  \/ (Done /\ l' = l + 1)

TraceSpec == TraceInit /\ [][TraceNext]_tvars
TraceView == <<l>>
=============================================================================
