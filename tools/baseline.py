#!/usr/bin/env python3
"""Run the repository's pinned baseline (BASELINE.json stable_pass) WITHOUT the
verif build tag and report stable tests that no longer pass.

usage: baseline.py [repo_dir] [--pkgs ./pkg/machine/...]
exit 0: every stable test passed; exit 1: some stable test missing/failing.
"""
import json, os, subprocess, sys, time

GO = "/root/go/pkg/mod/golang.org/toolchain@v0.0.1-go1.25.0.linux-amd64/bin/go"


def main():
    repo = "/repo"
    pkgs = ["./..."]
    args = sys.argv[1:]
    if args and not args[0].startswith("--"):
        repo = args.pop(0)
    if args and args[0] == "--pkgs":
        pkgs = args[1:]
    base = json.load(open("/root/.vp/BASELINE.json"))
    stable = set(base["stable_pass"])
    env = dict(os.environ, GOFLAGS="-mod=mod", GOPROXY="off", GOSUMDB="off",
               GOTOOLCHAIN="local")
    go = GO if os.path.exists(GO) else "go"
    t0 = time.time()
    p = subprocess.Popen([go, "test", "-json", "-vet=off", "-count=1", "-timeout", "25m"] + pkgs,
                         cwd=repo, env=env, stdout=subprocess.PIPE, stderr=subprocess.STDOUT,
                         text=True)
    passed, failed, pk = set(), set(), set()
    for line in p.stdout:
        line = line.strip()
        if not line.startswith("{"):
            continue
        try:
            ev = json.loads(line)
        except Exception:
            continue
        a, pkg, t = ev.get("Action"), ev.get("Package", ""), ev.get("Test")
        if a not in ("pass", "fail") or t is None:
            if a in ("pass", "fail") and t is None:
                pk.add(pkg)
            continue
        (passed if a == "pass" else failed).add(pkg + "::" + t)
    p.wait()
    passed -= failed
    scope = {s for s in stable if s.split("::")[0] in pk} if pkgs != ["./..."] else stable
    missing = sorted(scope - passed)
    print(json.dumps(dict(passed=len(passed), failed=sorted(failed), stable_in_scope=len(scope),
                          stable_missing=missing, wall_s=round(time.time() - t0, 1)), indent=1))
    return 1 if missing else 0


if __name__ == "__main__":
    sys.exit(main())
