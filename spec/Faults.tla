------------------------------- MODULE Faults -------------------------------
(* Handler faults on top of Transition!RunTx: a handler that panics           *)
(* (handlerLoop's deferred catch -> handlerPanic -> recoverToErr,             *)
(* machine.go:1662-1756, 2438-2441) or that overruns HandlerTimeout and then  *)
(* acknowledges (machine.go:2389-2406).                                       *)
(*                                                                            *)
(* In the negotiation phase a fault flows exactly like a veto (the handler    *)
(* result is false / the call returns Canceled), so the control flow is       *)
(* RunTx with the faulting negotiation handlers added to the veto set; the    *)
(* side effects (Exception mutation prepended, handler loop restarted or      *)
(* not) are derived from the handler log.  In the final phase the walk over   *)
(* the final handlers is redone here because recoverFinalPhase changes the    *)
(* machine in the middle of it.                                               *)
(*   sc = [veto, pan, stall : sets of <<binding, handlerName>>]               *)
(*   st = [active, clock, wedged]   wedged: the handler goroutine is gone     *)
(*   cfg.loopfix : recoverToErr restarts the handler loop also when the       *)
(*                 failing transition is an Exception mutation (fix: C08)     *)
(*   cfg.endfix  : recoverFinalPhase also rolls back from a failing End       *)
(*                 handler, each state in its own direction (fix: C08)        *)
EXTENDS Transition, TLC

IsNegName(h) == h[1] \in {"exit", "enter", "self", "ss", "anyenter"}

NegOnly(S) == {x \in S : IsNegName(x[2])}

(* recoverFinalPhase (machine.go:1723-1756)                                   *)
RecoverFinal(cfg, sch, active, clock, exits, enters, called, latestTo, latestIsEnter) ==
  LET finals == exits \o enters
      RECURSIVE Go(_, _, _)
      Go(i, found, act) ==
        IF i > Len(finals) THEN act
        ELSE LET s == finals[i]
                 f2 == found \/ (latestTo = s)
             IN IF ~f2 THEN Go(i + 1, f2, act)
                ELSE IF cfg.endfix
                     THEN IF SHas(enters, s) THEN Go(i + 1, f2, SWithout(act, s))
                          ELSE IF SHas(act, s) THEN Go(i + 1, f2, act)
                          ELSE Go(i + 1, f2, Append(act, s))
                     ELSE IF latestIsEnter THEN Go(i + 1, f2, SWithout(act, s))
                          ELSE Go(i + 1, f2, Append(act, s))
      act2 == Go(1, FALSE, active)
  IN [active |-> act2, clock |-> ApplyTicks(sch, clock, active, called, act2)]

(* Event.IsValid (mach_misc.go:1052): recoverToErr marks the transition       *)
(* completed and not accepted, so every handler invoked LATER in the same     *)
(* transition is skipped by the handler loop (its body does not run, the      *)
(* call yields false).  A timeout does not do that.                           *)
RunTxF(cfg, sch, idx, topo, hs, st, mut, sc) ==
  LET isExc == SHas(mut.called, "Exception")
      negFaults == NegOnly(sc.pan \cup sc.stall)
      base == [active |-> st.active, clock |-> st.clock]
      r1 == RunTx(cfg, sch, idx, topo, hs, base, mut, sc.veto \cup negFaults)
      negLog1 == SubSeq(r1.hlog, 1, r1.negLen)
      panicPos == {i \in 1..Len(negLog1) : negLog1[i] \in sc.pan /\ negLog1[i] \notin sc.veto}
      firstPanic == IF panicPos = {} THEN 0
                    ELSE CHOOSE i \in panicPos : \A j \in panicPos : i <= j
      ran == {negLog1[i] : i \in 1..firstPanic}
      allNeg == UNION {{<<b, h>> : h \in hs.binds[b].neg} : b \in 1..Len(hs.binds)}
      rp == IF firstPanic = 0 THEN r1
            ELSE RunTx(cfg, sch, idx, topo, hs, base, mut,
                       sc.veto \cup negFaults \cup (allNeg \ ran))
      \* recoverToErr: "negotiation phase - canceling is enough".  Pinned code: a
      \* partially accepted AUTO transition did not look at the flag again - the
      \* faulted state was merely dropped from the target and whatever the
      \* re-resolution produced (e.g. the same state, pulled back in by an Add
      \* relation of an active Multi state) was applied by a transition that
      \* reports itself not accepted.  Repaired: the transition is canceled.
      r == IF firstPanic > 0 /\ cfg.autofault /\ rp.applied
           THEN [rp EXCEPT !.applied = FALSE, !.accepted = FALSE, !.result = "canceled",
                           !.active = st.active, !.clock = st.clock,
                           !.tAfter = rp.tBefore, !.autoSet = {}]
           ELSE rp
      negLog == IF firstPanic = 0 THEN negLog1 ELSE SubSeq(negLog1, 1, firstPanic)
      finLog == IF firstPanic = 0 THEN SubSeq(r.hlog, r.negLen + 1, Len(r.hlog)) ELSE <<>>
      \* the handler goroutine is gone: the first handler call never returns
      hangsAtOnce == st.wedged /\ r1.hlog # <<>>
      negExc == IF firstPanic > 0 /\ ~isExc THEN 1 ELSE 0
      negWedge == isExc /\ firstPanic > 0 /\ ~cfg.loopfix
      negStall == \E i \in 1..Len(negLog) : negLog[i] \in sc.stall /\ negLog[i] \notin sc.veto
      \* ---- final phase walk with faults
      RECURSIVE Fin(_, _)
      Fin(k, a) ==
        IF k > Len(finLog) \/ a.hang \/ a.stop THEN a
        ELSE LET e == finLog[k]
                 h == e[2]
                 isEnter == h[1] \in {"state", "anystate"}
                 to == IF h[1] = "state" THEN h[2]
                       ELSE IF h[1] = "end" THEN (IF cfg.endfix THEN h[2] ELSE "")
                       ELSE "Any"
                 a1 == [a EXCEPT !.log = Append(@, e), !.latestTo = to,
                                 !.latestIsEnter = isEnter]
                 \* another binding owns the same handler and would be invoked next
                 moreSame == k < Len(finLog) /\ finLog[k + 1][2] = h
             IN IF e \in sc.pan
                THEN IF isExc
                     \* recoverToErr returns early for an Exception mutation: the
                     \* transition stays valid, so the other bindings' handlers of
                     \* the same name still run (when the loop was restarted)
                     THEN LET a2 == [a1 EXCEPT !.faulted = TRUE, !.wedge = ~cfg.loopfix,
                                               !.hang = ~cfg.loopfix /\ moreSame,
                                               !.stop = ~moreSame, !.stopAfter = h]
                          IN IF moreSame /\ cfg.loopfix THEN Fin(k + 1, a2) ELSE a2
                     ELSE LET rf == RecoverFinal(cfg, sch, a1.active, a1.clock, r.exits,
                                                 r.enters, mut.called, to, isEnter)
                          IN [a1 EXCEPT !.active = rf.active, !.clock = rf.clock,
                                        !.nexc = @ + 1, !.stop = TRUE, !.faulted = TRUE]
                ELSE IF e \in sc.stall
                     THEN [a1 EXCEPT !.stop = TRUE, !.faulted = TRUE]
                     ELSE IF a.stopAfter = h /\ ~moreSame
                          THEN [a1 EXCEPT !.stop = TRUE]
                          ELSE Fin(k + 1, a1)
      a0 == [active |-> r.active, clock |-> r.clock, log |-> <<>>, nexc |-> 0,
             wedge |-> FALSE, hang |-> FALSE, stop |-> FALSE, stopAfter |-> <<>>,
             latestTo |-> "", latestIsEnter |-> FALSE, faulted |-> FALSE]
      fin == IF r.applied THEN Fin(1, a0) ELSE a0
      \* emitEvents: `if result == Canceled { m.recoverFinalPhase() }`
      \* (only after emitFinalEvents; a failing AnyState comes later in emitEvents)
      fin2 == IF fin.faulted /\ ~fin.hang /\ fin.latestTo # "Any"
              THEN LET rf == RecoverFinal(cfg, sch, fin.active, fin.clock, r.exits, r.enters,
                                          mut.called, fin.latestTo, fin.latestIsEnter)
                   IN [fin EXCEPT !.active = rf.active, !.clock = rf.clock]
              ELSE fin
      finalFault == fin.faulted
      anyFault == finalFault \/ firstPanic > 0 \/ negStall
      \* faults are one-shot: a scripted fault fires the first time its handler
      \* body runs and is then removed from the script
      firedNeg == {negLog[i] : i \in {k \in 1..Len(negLog) :
                     negLog[k] \in (sc.pan \cup sc.stall) /\ negLog[k] \notin sc.veto}}
      firedFin == {fin2.log[i] : i \in {k \in 1..Len(fin2.log) :
                     fin2.log[k] \in (sc.pan \cup sc.stall)}}
  IN IF hangsAtOnce
     THEN r1 @@ [hang |-> TRUE, nexc |-> 0, wedged |-> TRUE,
                 fault |-> "none", finalFault |-> FALSE, fired |-> {}]
     ELSE
       [r EXCEPT
          !.active = fin2.active,
          !.clock = fin2.clock,
          !.tAfter = TimeOf(idx, fin2.clock),
          !.hlog = negLog \o fin2.log,
          !.negLen = Len(negLog),
          !.accepted = r.accepted /\ ~finalFault /\ firstPanic = 0,
          !.result = IF finalFault THEN "canceled" ELSE r.result,
          !.changed = fin2.clock # st.clock,
          !.autoSet = IF finalFault THEN {} ELSE r.autoSet]
       @@ [hang |-> fin2.hang,
           nexc |-> negExc + fin2.nexc,
           wedged |-> st.wedged \/ negWedge \/ fin2.wedge,
           fault |-> IF anyFault THEN "fault" ELSE "none",
           finalFault |-> finalFault,
           fired |-> firedNeg \cup firedFin]

---------------------------------------------------------------------------
(* C08 formulas over a logged transition observation `o` (see Props.tla) with *)
(* extra fields: pan, stall (the script's fault sets), and over call returns. *)

FiredFaults(o) ==
  {i \in 1..Len(o.hlog) : <<o.hlog[i].b, o.hlog[i].h>> \in (o.pan \cup o.stall)
                          /\ <<o.hlog[i].b, o.hlog[i].h>> \notin o.vetoedOnly}

C08_Parity(idx, o) ==
  \A i \in 1..Len(idx) : IsActiveTick(o.mtime[i]) <=> SHas(o.after, idx[i])

(* a fault in the negotiation phase that stops the transition leaves states   *)
(* and ticks untouched                                                        *)
C08_NegFaultFrozen(o) ==
  LET ff == FiredFaults(o) IN
  (ff # {} /\ \A i \in ff : IsNegName(o.hlog[i].h) /\ ~o.accepted)
     => (o.after = o.before /\ o.mtime = o.tb)

(* a fault in a final handler: exactly the activations / deactivations whose  *)
(* final handlers had not completed are rolled back.  k = position (in        *)
(* exits \o enters) of the state whose final handler faulted.                 *)
C08_FinalRollbackExact(o) ==
  LET ff == {i \in FiredFaults(o) : o.hlog[i].h[1] \in {"end", "state"}}
  IN ff # {} =>
       LET i0 == CHOOSE i \in ff : \A j \in ff : i <= j
           s0 == o.hlog[i0].h[2]
           finals == o.exits \o o.enters
           k == SIndex(finals, s0)
           undone == {finals[j] : j \in k..Len(finals)}
           want == (SSet(o.target) \ (undone \cap SSet(o.enters)))
                   \cup (undone \cap SSet(o.exits))
       IN k > 0 => SSet(o.after) = want

(* a fault in the global AnyState handler comes after every FooEnd / FooState  *)
(* has completed: nothing is rolled back                                       *)
C08_AnyStateFaultKeepsFinals(o) ==
  LET ff == FiredFaults(o)
      fin == {i \in ff : o.hlog[i].h[1] \in {"end", "state"}}
      any == {i \in ff : o.hlog[i].h[1] = "anystate"}
  IN (any # {} /\ fin = {} /\ \A i \in ff : ~IsNegName(o.hlog[i].h))
       => SSet(o.after) = SSet(o.target)

C08_Tx(idx, o) ==
  /\ C08_Parity(idx, o)
  /\ C08_NegFaultFrozen(o)
  /\ C08_FinalRollbackExact(o)
  /\ C08_AnyStateFaultKeepsFinals(o)
=============================================================================
