---------------------------- MODULE TraceRpcSync ----------------------------
(* Trace validation of REAL rpc.Server + rpc.Client executions                 *)
(* (harness/rpcdrv, hook points of pkg/rpc/verif_sync_on.go) against the       *)
(* operators of RpcSyncOps.tla - the ones the model RpcSync.tla is built from. *)
(* The state FOLLOWS the log; at every line                                   *)
(*   drift : the specification's own step on the same inputs differs from     *)
(*           what the code logged  -> spec # code (conformance)               *)
(*   viol  : a formula of the property is FALSE on the LOGGED values          *)
(*           -> the verdict                                                   *)
(* Lines (one case = init ... end; cases are concatenated):                   *)
(*   init      configuration                                    (reset)       *)
(*   hello     RemoteHello memorised lastPushData               SrvHello      *)
(*   chello    Client.updateStatesSchema                        Deliver hello *)
(*   snap      sourceTracer.TransitionEnd                       SrcMutate     *)
(*   notify    pushUpdate* right before Notify                  PushSend      *)
(*   store     storeLastPush (push | reply): from, to           PushSend /    *)
(*                                                       RemoteMutCompute     *)
(*   reply     Remote{Add,Remove,Set} returned (after unlock)   ReplySend     *)
(*   gotreply  the calling goroutine got the reply              Deliver reply *)
(*   applied   clockUpdate verdict: mirror before, diff,        ClientApply / *)
(*             candidate, accepted                              Mismatch      *)
(*   dropped   an update arrived before the client's HandshakeDone            *)
(*   set       clockSet (handshake, Sync)                       CliSyncApply  *)
(*   src/call/ret/probe/end   harness observations through the public API     *)
EXTENDS RpcSyncOps, Json, TLC

CONSTANTS TraceFile,
          FixQueueFlush,   \* as RpcSync.tla: [FALSE] the per-mutation queue is never emptied
          FixShallowSum    \* as RpcSync.tla: [FALSE]

Trace == ndJsonDeserialize(TraceFile)

VARIABLES
  l, viol, drift, stat,
  cfg,        \* the init line
  names,      \* the client's state list: index space of every vector
  tracked,    \* synchronised states (set)
  lastPush,   \* Server.lastPushData as the specification tracks it, or None
  lastSnap,   \* sourceTracer.dataLatest
  snaps,      \* snapshots taken since the last storeLastPush
  dq,         \* sourceTracer.dataQueue (per-mutation)
  pendN,      \* diffs of the Notify in progress, or None
  lastStore,  \* the last storeLastPush of a reply [kind, from, to, exp]
  mirror,     \* the network machine's clock, or None
  drifted,    \* a mismatch was detected and not followed by a full sync / hello yet
  emptied,    \* lastPushData advanced past a snapshot nobody was told about
  lastReply,  \* result and data of the last reply the server computed
  gotRes,     \* result the client received for the call in flight, or ""
  wire,       \* per case: updates notified / replies received / verdicts / drops / cuts
  cur         \* label of the case

tvars == <<l, viol, drift, stat, cfg, names, tracked, lastPush, lastSnap, snaps, dq,
           pendN, lastStore, mirror, drifted, emptied, lastReply, gotRes, wire, cur>>

Line == Trace[l]

SetOf(q) == {q[i] : i \in 1..Len(q)}
Idx(s) == CHOOSE i \in 1..Len(names) : names[i] = s
NameSet == SetOf(names)

(* logged vector -> clock over the client's states                            *)
Clk(t, q) == [t |-> [s \in NameSet |-> IF Idx(s) <= Len(t) THEN t[Idx(s)] ELSE 0], q |-> q]

(* logged server snapshot -> tracerData over the tracked states               *)
SrvSum(t) ==
  LET f == [s \in NameSet |-> IF Idx(s) <= Len(t) THEN t[Idx(s)] ELSE 0]
  IN IF cfg.shallow /\ cfg.schema /\ ~FixShallowSum THEN SumOver(f, NameSet)
     ELSE SumOver(f, tracked)

Srv(t, q) == [t |-> [s \in tracked |-> IF Idx(s) <= Len(t) THEN t[Idx(s)] ELSE 0],
              q |-> q, sum |-> SrvSum(t)]

(* logged diff message -> [d, q, ck] over the tracked states                  *)
Upd(u) ==
  [d |-> [s \in tracked |->
            IF \E k \in 1..Len(u.i) : u.i[k] + 1 = Idx(s)
            THEN u.d[CHOOSE k \in 1..Len(u.i) : u.i[k] + 1 = Idx(s)] ELSE 0],
   q |-> u.q, ck |-> u.ck]

(* every index of the message addresses a tracked state                       *)
UpdWellFormed(u) ==
  \A k \in 1..Len(u.i) : u.i[k] + 1 <= Len(names) /\ names[u.i[k] + 1] \in tracked

Upds(us) == [k \in 1..Len(us) |-> Upd(us[k])]

Stat0 == [cases |-> 0, forced |-> 0, completed |-> 0, snaps |-> 0, pushes |-> 0, emptypush |-> 0,
          replies |-> 0, applied |-> 0, rejected |-> 0, dropped |-> 0, syncs |-> 0,
          hellos |-> 0, probes |-> 0, qprobes |-> 0, rets |-> 0]

Wire0 == [notify |-> 0, got |-> 0, applied |-> 0, dropped |-> 0, cut |-> FALSE]

Reset(x) ==
  /\ cfg' = x /\ cur' = x.label
  /\ names' = <<>> /\ tracked' = {}
  /\ lastPush' = None /\ lastSnap' = None /\ snaps' = {} /\ dq' = <<>>
  /\ pendN' = None /\ lastStore' = None /\ mirror' = None
  /\ drifted' = FALSE /\ emptied' = FALSE /\ lastReply' = None /\ gotRes' = ""
  /\ wire' = Wire0

TraceInit ==
  /\ l = 2 /\ viol = {} /\ drift = {}
  /\ Trace[1].ev = "init"
  /\ cfg = Trace[1] /\ cur = Trace[1].label
  /\ names = <<>> /\ tracked = {}
  /\ lastPush = None /\ lastSnap = None /\ snaps = {} /\ dq = <<>>
  /\ pendN = None /\ lastStore = None /\ mirror = None
  /\ drifted = FALSE /\ emptied = FALSE /\ lastReply = None /\ gotRes = ""
  /\ wire = Wire0
  /\ stat = [Stat0 EXCEPT !.cases = 1, !.forced = IF Trace[1].forced THEN 1 ELSE 0]

D(name) == {<<l, cur, name>>}
When(c, name) == IF c THEN D(name) ELSE {}

EvInit ==
  /\ Line.ev = "init"
  /\ Reset(Line)
  /\ stat' = [stat EXCEPT !.cases = @ + 1, !.forced = @ + (IF Line.forced THEN 1 ELSE 0)]
  /\ UNCHANGED <<viol, drift>>

(* RemoteHello: the index space is the client's, known from the chello line   *)
(* that FOLLOWS; the server's tracked list is authoritative for `tracked`     *)
EvHello ==
  /\ Line.ev = "hello"
  /\ LET nm == IF cfg.schema THEN cfg.srcnames ELSE Line.tracked IN
     /\ names' = nm
     /\ tracked' = SetOf(Line.tracked)
     /\ lastPush' = [t |-> [s \in SetOf(Line.tracked) |->
                              LET i == CHOOSE i \in 1..Len(nm) : nm[i] = s
                              IN IF i <= Len(Line.t) THEN Line.t[i] ELSE 0],
                     q |-> Line.q]
  /\ pendN' = None
  /\ dq' = IF FixQueueFlush THEN <<>> ELSE dq
  /\ stat' = [stat EXCEPT !.hellos = @ + 1]
  /\ UNCHANGED <<viol, drift, cfg, lastSnap, snaps, lastStore, mirror, drifted, emptied, lastReply,
                 gotRes, wire, cur>>

EvCHello ==
  /\ Line.ev = "chello"
  /\ drift' = drift \cup When(Line.names # names, "chello.names")
                    \cup When(SetOf(Line.tracked) # tracked, "chello.tracked")
  /\ mirror' = [t |-> [s \in SetOf(Line.names) |->
                         Line.t[CHOOSE i \in 1..Len(Line.names) : Line.names[i] = s]],
                q |-> Line.q]
  /\ drifted' = FALSE /\ emptied' = FALSE
  /\ UNCHANGED <<viol, stat, cfg, names, tracked, lastPush, lastSnap, snaps, dq, pendN,
                 lastStore, lastReply, gotRes, wire, cur>>

SnapKey(x) == [t |-> x.t, q |-> x.q]

EvSnap ==
  /\ Line.ev = "snap"
  /\ IF names = <<>>
     THEN UNCHANGED <<lastSnap, snaps, dq, drift>>     \* tracer not bound to a client yet
     ELSE LET d == Srv(Line.t, Line.q) IN
          /\ lastSnap' = d
          /\ snaps' = snaps \cup {d}
          /\ dq' = IF cfg.mutations THEN Append(dq, d) ELSE dq
          /\ drift' = drift
  /\ stat' = [stat EXCEPT !.snaps = @ + 1]
  /\ UNCHANGED <<viol, cfg, names, tracked, lastPush, pendN, lastStore, mirror, drifted,
                 emptied, lastReply, gotRes, wire, cur>>

(* what the specification computes for the export FROM lastPush TO data       *)
Expected(from, to, q2) ==
  IF cfg.mutations THEN ChainOf(from, q2)
  ELSE <<DiffOf(cfg.shallow, from, to)>>

(* the diff is computed in the critical section that took the snapshot copy:  *)
(* it is compared here, with the queue as it is NOW                           *)
EvNotify ==
  /\ Line.ev = "notify"
  /\ LET known == lastPush # None /\ lastSnap # None
         us == Upds(Line.us)
         \* pushClient copied the snapshot a moment ago: any snapshot taken so far
         \* (per-mutation: any prefix of the queue) may be the one it diffed
         matches == IF cfg.mutations
                    THEN \E k \in 0..Len(dq) : us = ChainOf(lastPush, SubSeq(dq, 1, k))
                    ELSE \E sn \in snaps : us = <<DiffOf(cfg.shallow, lastPush, sn)>>
     IN pendN' = [us |-> us, wf |-> \A k \in 1..Len(Line.us) : UpdWellFormed(Line.us[k]),
                  ok |-> ~known \/ matches]
  /\ UNCHANGED <<viol, drift, stat, cfg, names, tracked, lastPush, lastSnap, snaps, dq,
                 lastStore, mirror, drifted, emptied, lastReply, gotRes, cur>>
  /\ wire' = [wire EXCEPT !.notify = @ + Len(Line.us)]

EvStore ==
  /\ Line.ev = "store"
  /\ LET from == IF Line.fnil THEN None ELSE Srv(Line.ft, Line.fq)
         to == IF Line.tnil THEN None ELSE Srv(Line.tt, Line.tq)
         known == lastPush # None /\ from # None /\ to # None
         exp == IF known THEN Expected(from, to, dq) ELSE <<>>
         sent == pendN # None
         expEmpty == IF cfg.mutations THEN exp = <<>> ELSE (known /\ EmptyDiff(exp[1]))
         d == UNION {
                When(lastPush # None /\ from # None /\
                     (from.t # lastPush.t \/ from.q # lastPush.q), "store.from"),
                When(to # None /\ to \notin snaps /\
                     ~(lastPush # None /\ to.t = lastPush.t /\ to.q = lastPush.q), "store.to"),
                When(to = None, "store.nil"),
                When(Line.kind = "push" /\ sent /\ ~pendN.ok, "push.diff"),
                When(Line.kind = "push" /\ sent /\ ~pendN.wf, "push.index"),
                \* (a push parked across a re-hello stores data OLDER than the hello's)
                When(Line.kind = "push" /\ known /\ ~sent /\ ~expEmpty /\ to.q >= from.q, "push.unsent"),
                When(Line.kind = "push" /\ known /\ sent /\ expEmpty /\ ~cfg.mutations, "push.sent-empty")}
         adv == Line.kind = "push" /\ ~sent /\ known /\ (to.t # from.t \/ to.q # from.q)
     IN /\ drift' = drift \cup d
        /\ lastStore' = IF Line.kind = "reply"
                        THEN [kind |-> Line.kind, from |-> from, to |-> to, exp |-> exp]
                        ELSE lastStore      \* (the last storeLastPush of a REPLY)
        /\ lastPush' = IF to = None THEN lastPush ELSE [t |-> to.t, q |-> to.q]
        /\ emptied' = (emptied \/ adv)
        /\ stat' = [stat EXCEPT !.pushes = @ + (IF Line.kind = "push" THEN 1 ELSE 0),
                                !.emptypush = @ + (IF adv THEN 1 ELSE 0)]
        /\ dq' = IF FixQueueFlush THEN <<>> ELSE dq
  /\ pendN' = None
  /\ UNCHANGED <<viol, cfg, names, tracked, lastSnap, snaps, mirror, drifted, lastReply, gotRes, wire, cur>>

EvReply ==
  /\ Line.ev = "reply"
  /\ LET ok == lastStore # None /\ lastStore.to # None
         us == Upds(Line.us)
         d == UNION {
                When(~ok, "reply.nostore"),
                When(ok /\ lastStore.from # None /\ us # lastStore.exp, "reply.diff"),
                When(\E k \in 1..Len(Line.us) : ~UpdWellFormed(Line.us[k]), "reply.index")}
     IN /\ drift' = drift \cup d
        /\ lastReply' = [res |-> Line.res, data |-> IF ok THEN lastStore.to ELSE None]
  /\ stat' = [stat EXCEPT !.replies = @ + 1]
  /\ UNCHANGED <<viol, cfg, names, tracked, lastPush, lastSnap, snaps, dq, pendN, lastStore,
                 mirror, drifted, emptied, gotRes, wire, cur>>

EvGotReply ==
  /\ Line.ev = "gotreply"
  /\ gotRes' = Line.res
  /\ wire' = [wire EXCEPT !.got = @ + Len(Line.us)]
  /\ UNCHANGED <<viol, drift, stat, cfg, names, tracked, lastPush, lastSnap, snaps, dq, pendN,
                 lastStore, mirror, drifted, emptied, lastReply, cur>>

EvApplied ==
  /\ Line.ev = "applied"
  /\ LET from == Clk(Line.ft, Line.fq)
         to == Clk(Line.tt, Line.tq)
         u == Upd(Line.u)
         cand == ApplyTo(from, u)
         acc == AcceptsOf(cfg.shallow, FixShallowSum, tracked, 0, from, u)
         d == UNION {
                When(mirror # None /\ from # mirror, "applied.from"),
                When(~UpdWellFormed(Line.u), "applied.index"),
                When(cand # to, "applied.to"),
                When(acc # Line.acc, "applied.acc")}
     IN /\ drift' = drift \cup d
        /\ mirror' = IF Line.acc THEN to ELSE from
        /\ drifted' = (drifted \/ ~Line.acc)
        /\ stat' = [stat EXCEPT !.applied = @ + 1, !.rejected = @ + (IF Line.acc THEN 0 ELSE 1)]
  /\ UNCHANGED <<viol, cfg, names, tracked, lastPush, lastSnap, snaps, dq, pendN, lastStore,
                 emptied, lastReply, gotRes, cur>>
  /\ wire' = [wire EXCEPT !.applied = @ + 1]

EvDropped ==
  /\ Line.ev = "dropped"
  /\ stat' = [stat EXCEPT !.dropped = @ + 1]
  /\ UNCHANGED <<viol, drift, cfg, names, tracked, lastPush, lastSnap, snaps, dq, pendN,
                 lastStore, mirror, drifted, emptied, lastReply, gotRes, cur>>
  /\ wire' = [wire EXCEPT !.dropped = @ + Len(Line.us)]

EvSet ==
  /\ Line.ev = "set"
  /\ LET from == Clk(Line.ft, Line.fq)
         to == Clk(Line.tt, Line.tq)
     IN /\ drift' = drift \cup When(mirror # None /\ from # mirror, "set.from")
                          \cup When(Len(Line.tt) # Len(names), "set.len")
        /\ mirror' = to
  /\ drifted' = FALSE
  /\ stat' = [stat EXCEPT !.syncs = @ + 1]
  /\ UNCHANGED <<viol, cfg, names, tracked, lastPush, lastSnap, snaps, dq, pendN, lastStore,
                 emptied, lastReply, gotRes, wire, cur>>

EvCall ==
  /\ Line.ev = "call"
  /\ gotRes' = "" /\ lastReply' = None /\ UNCHANGED wire
  /\ UNCHANGED <<viol, drift, stat, cfg, names, tracked, lastPush, lastSnap, snaps, dq, pendN,
                 lastStore, mirror, drifted, emptied, cur>>

(* the call returned: ReplyTruthful and ReadYourWrite on the logged values.   *)
(* Judged only when the client RECEIVED a reply (a call that failed with the  *)
(* connection returns Canceled by contract).                                  *)
EvRet ==
  /\ Line.ev = "ret"
  /\ LET got == gotRes # "" /\ lastReply # None
         m == Clk(Line.t, Line.q)
         v == UNION {
                When(got /\ Line.res # lastReply.res, "ReplyTruthful"),
                When(got /\ gotRes # lastReply.res, "ReplyTruthful"),
                When(got /\ Line.cready /\ lastReply.data # None /\ Len(Line.t) = Len(names) /\
                     ~CoversOf(cfg.shallow, tracked, m, lastReply.data), "ReadYourWrite")}
         d == When(mirror # None /\ Len(Line.t) = Len(names) /\ m.t # mirror.t, "ret.mirror")
     IN /\ viol' = viol \cup v
        /\ drift' = drift \cup d
  /\ stat' = [stat EXCEPT !.rets = @ + 1]
  /\ UNCHANGED <<cfg, names, tracked, lastPush, lastSnap, snaps, dq, pendN, lastStore, mirror,
                 drifted, emptied, lastReply, gotRes, wire, cur>>

(* with pushes disabled only replies and syncs carry updates: convergence is  *)
(* promised once everything the source did has been exported                  *)
Exported == lastPush # None /\ lastSnap # None /\ lastPush.t = lastSnap.t /\ lastPush.q = lastSnap.q

(* the harness observed quiescence on the real pair (every gate open, free    *)
(* delivery, nothing logged for the idle period) and read both clocks through *)
(* the public API                                                             *)
EvProbe ==
  /\ Line.ev = "probe"
  /\ LET q == Line.quiescent /\ Line.cready /\ Len(Line.mt) = Len(names) /\ names # <<>>
         s == Clk(Line.st, Line.sq)
         m == Clk(Line.mt, Line.mq)
         premise == q /\ (cfg.push \/ Exported)
         v == UNION {
                When(premise /\ ~MatchesOf(cfg.shallow, tracked, m, s), "ConvergedAtQuiescence"),
                When(premise /\ drifted /\ ~MatchesOf(cfg.shallow, tracked, m, s), "ResyncAfterDrift"),
                \* "ticks AND activity": with the ticks converged, Is() of the mirror
                \* answers what the source's does
                When(premise /\ MatchesOf(cfg.shallow, tracked, m, s) /\
                     (SetOf(Line.mact) \cap tracked) # (SetOf(Line.sact) \cap tracked),
                     "ActivityAtQuiescence"),
                \* the mirror's ticks are what EVERY view of it says: read state by
                \* state (Tick / Clock) they are the ticks Time() reports
                When(q /\ Len(Line.mtk) = Len(Line.mt) /\ Line.mtk # Line.mt, "TickViewsAgree"),
                When(Line.quiescent /\ (Line.blocked > 0 \/ Line.syncopen > 0), "NoForeverBlock"),
                \* the pusher is live (RpcSync.tla PushDeliveredAtQuiescence): with the REAL
                \* debounce and the REAL push ticker (interval > 0; a forced schedule plays
                \* the ticker itself), both sides handshaken and nothing open, no snapshot
                \* of the source is newer than what lastPushData says was exported - a
                \* change debounced by "too often" was delivered by the ticker, on the
                \* first connection and after every reconnect.  (Per-mutation mode is left
                \* to ConvergedAtQuiescence: DataQueue() empties dataLatest, the log cannot
                \* tell "nothing newer" from "newer, already sent in the chain".)
                When(Line.quiescent /\ cfg.ticker /\ ~cfg.mutations /\ Line.cready /\ Line.sready /\
                     Line.blocked = 0 /\ Line.syncopen = 0 /\ pendN = None /\
                     lastPush # None /\ lastSnap # None /\
                     (lastPush.t # lastSnap.t \/ lastPush.q # lastSnap.q),
                     "PushDeliveredAtQuiescence")}
         d == When(q /\ mirror # None /\ m.t # mirror.t, "probe.mirror")
     IN /\ viol' = viol \cup v
        /\ drift' = drift \cup d
        /\ stat' = [stat EXCEPT !.probes = @ + 1, !.qprobes = @ + (IF q THEN 1 ELSE 0)]
  /\ UNCHANGED <<cfg, names, tracked, lastPush, lastSnap, snaps, dq, pendN, lastStore, mirror,
                 drifted, emptied, lastReply, gotRes, wire, cur>>

EvEnd ==
  /\ Line.ev = "end"
  /\ viol' = viol \cup When(Line.completed /\ Line.blocked > 0, "NoForeverBlock")
  /\ stat' = [stat EXCEPT !.completed = @ + (IF Line.completed THEN 1 ELSE 0)]
  \* every update the server notified and every reply the client received got a
  \* verdict (or was dropped before the handshake) - one update per message
  \* unless per-mutation; void after a cut
  /\ drift' = drift \cup When(Line.completed /\ Line.blocked = 0 /\ ~cfg.mutations /\ ~wire.cut /\
                               wire.applied + wire.dropped # wire.notify + wire.got, "wire.count")
  /\ UNCHANGED <<cfg, names, tracked, lastPush, lastSnap, snaps, dq, pendN, lastStore,
                 mirror, drifted, emptied, lastReply, gotRes, wire, cur>>

EvOther ==
  /\ Line.ev \in {"connect", "handshake", "chandshaked", "syncenter", "syncexit",
                  "syncgot", "src", "synccall", "syncret"}
  /\ UNCHANGED <<viol, drift, stat, cfg, names, tracked, lastPush, lastSnap, snaps, dq, pendN,
                 lastStore, mirror, drifted, emptied, lastReply, gotRes, wire, cur>>

(* bytes in flight are lost: the wire bookkeeping of the case is void          *)
EvCut ==
  /\ Line.ev = "cut"
  /\ wire' = [wire EXCEPT !.cut = TRUE]
  /\ UNCHANGED <<viol, drift, stat, cfg, names, tracked, lastPush, lastSnap, snaps, dq, pendN,
                 lastStore, mirror, drifted, emptied, lastReply, gotRes, cur>>

Done ==
  /\ l = Len(Trace) + 1
  /\ PrintT(<<"RESULT", ToJson([lines |-> Len(Trace), viol |-> viol, drift |-> drift,
                                stat |-> stat])>>)
  /\ UNCHANGED <<viol, drift, stat, cfg, names, tracked, lastPush, lastSnap, snaps, dq, pendN,
                 lastStore, mirror, drifted, emptied, lastReply, gotRes, wire, cur>>

TraceNext ==
  \/ /\ l <= Len(Trace)
     /\ (EvInit \/ EvHello \/ EvCHello \/ EvSnap \/ EvNotify \/ EvStore \/ EvReply \/ EvGotReply
         \/ EvApplied \/ EvDropped \/ EvSet \/ EvCall \/ EvRet \/ EvProbe \/ EvEnd \/ EvCut \/ EvOther)
     /\ l' = l + 1
  \/ (Done /\ l' = l + 1)

TraceSpec == TraceInit /\ [][TraceNext]_tvars

TraceView == <<l>>
=============================================================================
