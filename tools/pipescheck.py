#!/usr/bin/env python3
"""C18 - pipes make the target follow the source (pkg/states/pipes).

design half : spec/Pipes.tla transcribes pipes.go (+ the target's mutation entry
              points) as the code is; spec/MCPipes.tla explores toggle bursts with
              EVERY delivery order.  With the repair flags on, the three formulas
              (FollowsAtQuiescence, BindAnyMirrors, SourceNeverBlocked) must hold;
              with the flags that describe the code they yield counterexample
              schedules (predictions).
binding half: no repository hook.  harness/pipesdrv hands the pipes package an
              am.Api PROXY of the target whose mutation methods are gates and record
              points.
              1. variant selection: probe runs are trace-validated (spec/TracePipes.tla)
                 against the strict variant (all repairs) first; the flags are then
                 flipped one at a time towards the permissive variant until the
                 real traces conform -> the flags the code refines.
              2. B3: TLC (MCPipes, Emit) enumerates every complete behaviour of the
                 selected variant as a script; the Go driver forces each delivery
                 order on the real machines by releasing the parked forwarded calls in
                 that order; TLC validates the recorded traces and evaluates the
                 formulas on the LOGGED values at every observed quiescence.
              3. gated random schedules over the remaining binds (BindMany, BindReady,
                 BindStart, BindErr, BindConnected, renamed targets, Multi, slow target;
                 several binding calls of one kind between the same two machines: BindMany
                 lists split over calls of equal length, one source state bound into two
                 target states; several piped error states Err*, added with Exception)
                 and free-running bursts (no gate, random rhythm).
A VIOLATION is reported only when a formula is false on values the real machines
produced; an expired wait with gates still parked is exit 2.

Violations are grouped by (bind, flat, local, cause, formula); the signature of a
class carries `cause` (overtake | remove-shortcut | queue-dedupe | flat-stale-check |
bindany-superset-skip (only when the former target.Is guard is observed) |
bindany-stale-check | inline-call-on-nonlocal-target | stranded-queue | unknown),
measured from the recorded trace, so that a known-findings entry can be keyed by
the mechanism: {"cause": "overtake"} etc.  Anything the trace does not explain by
one of these mechanisms is "unknown" and is never masked.
"""
import concurrent.futures as cf
import glob, json, os, random, re, shutil, sys, time
from collections import Counter, defaultdict

sys.path.insert(0, os.path.dirname(os.path.abspath(__file__)))
import tlcrun
from common import *

PROP = "C18"

# flags that describe pipes.go / machine.go at the pinned commit (permissive variant)
CODE = dict(ForwardInOrder=False, AnyExact=True, AnyFresh=False, Dedupe=True, DedupeCounter=False,
            RemoveShortcut=True, FlatFresh=False, AnyForkRemote=False)
# every repair applied (strict variant): the formulas hold on the model
REP = dict(ForwardInOrder=True, AnyExact=True, AnyFresh=True, Dedupe=True, DedupeCounter=True,
           RemoveShortcut=False, FlatFresh=True, AnyForkRemote=True)
FLAG_ORDER = ["ForwardInOrder", "AnyExact", "AnyFresh", "DedupeCounter", "RemoveShortcut", "FlatFresh",
              "AnyForkRemote", "Dedupe"]
INVARIANTS = ["FollowsAtQuiescence", "BindAnyMirrors", "SourceNeverBlocked"]

SETS = {"A": "<-StatesA", "AB": "<-StatesAB", "": "<-NoStates"}


def cfg(name, mode="pair", states="A", multi="", flat=False, local=True, slow=False,
        maxsrc=3, maxext=0, multiops=False, binds=("Bind",), sample=None, vmaxsrc=None,
        pipes="plain"):
    return dict(name=name, mode=mode, states=states, multi=multi, flat=flat, local=local, pipes=pipes,
                slow=slow, maxsrc=maxsrc, maxext=maxext, multiops=multiops, binds=list(binds),
                sample=sample, vmaxsrc=vmaxsrc or maxsrc)


PAIR1 = ("Bind", "BindMany", "Manual", "BindReady", "BindStart")
PAIR2 = ("Bind", "BindMany", "Manual")

CONFIGS = {
    "quick": [
        cfg("nonflat-local-A", maxsrc=4, binds=PAIR2),
        cfg("nonflat-local-A-named", maxsrc=3, binds=("BindReady", "BindStart")),
        cfg("nonflat-local-A-slow", slow=True, maxsrc=3, binds=("Bind", "BindMany")),
        # "BindMany/2": the piped states split over two BindMany calls of equal length
        cfg("nonflat-local-AB", states="AB", multiops=True, maxsrc=3, binds=PAIR2 + ("BindMany/2",),
            sample=250),
        # one source state bound into two target states by two calls of one kind
        cfg("nonflat-local-A-fan", pipes="fan", maxsrc=3, binds=("Bind", "BindMany/2", "Manual/2"),
            sample=120),
        # two piped error states (target names Err*: added together with Exception)
        cfg("nonflat-local-AB-err", states="AB", pipes="err", maxsrc=3, binds=("Bind", "BindMany"),
            sample=150),
        cfg("nonflat-local-multiA", multi="A", maxsrc=3, binds=("Bind", "Manual")),
        cfg("nonflat-remote-A", local=False, maxsrc=3, binds=("Bind",)),
        cfg("flat-local-A", flat=True, maxsrc=4, binds=("Manual",)),
        cfg("flat-local-A-slow-ext", flat=True, slow=True, maxext=1, maxsrc=3, binds=("Manual",)),
        cfg("flat-remote-A", flat=True, local=False, maxsrc=4, binds=("Manual",)),
        cfg("any-local-AB", mode="any", states="AB", multiops=True, maxsrc=3, binds=("BindAny",)),
        cfg("any-remote-AB", mode="any", states="AB", multiops=True, local=False, maxsrc=2,
            binds=("BindAny",)),
    ],
    "thorough": [
        cfg("nonflat-local-A", maxsrc=5, binds=PAIR1, vmaxsrc=6),
        cfg("nonflat-local-A-slow", slow=True, maxsrc=4, binds=PAIR2),
        cfg("nonflat-local-AB", states="AB", multiops=True, maxsrc=3, binds=PAIR2 + ("BindMany/2",)),
        cfg("nonflat-local-A-fan", pipes="fan", maxsrc=3, vmaxsrc=5, binds=("Bind", "BindMany/2", "Manual/2"),
            sample=4000),
        cfg("nonflat-local-AB-fan", states="AB", pipes="fan", maxsrc=2, binds=("Bind", "BindMany/2"),
            sample=4000),
        cfg("nonflat-local-AB-err", states="AB", pipes="err", multiops=True, maxsrc=3,
            binds=("Bind", "BindMany", "BindMany/2"), sample=4000),
        cfg("nonflat-local-AB-err-slow", states="AB", pipes="err", slow=True, maxsrc=3,
            binds=("BindMany",), sample=4000),
        cfg("nonflat-local-AB-4", states="AB", multiops=False, maxsrc=4, binds=("Bind", "BindMany"),
            sample=6000),
        cfg("nonflat-local-AB-slow", states="AB", slow=True, maxsrc=3, binds=("BindMany",),
            sample=4000),
        cfg("nonflat-local-multiA", multi="A", maxsrc=4, binds=PAIR2),
        cfg("nonflat-local-multiA-slow", multi="A", slow=True, maxsrc=3, binds=("Bind",)),
        cfg("nonflat-remote-A", local=False, maxsrc=4, binds=PAIR2),
        cfg("flat-local-A", flat=True, maxsrc=5, binds=("Manual",)),
        cfg("flat-local-A-slow-ext", flat=True, slow=True, maxext=1, maxsrc=4, binds=("Manual",)),
        cfg("flat-local-AB-slow-ext", flat=True, states="AB", slow=True, maxext=1, maxsrc=3,
            binds=("Manual",), sample=4000),
        cfg("flat-remote-A", flat=True, local=False, maxsrc=5, binds=("Manual",)),
        cfg("flat-remote-AB", flat=True, states="AB", multiops=True, local=False, maxsrc=3,
            binds=("Manual",), sample=4000),
        cfg("any-local-AB", mode="any", states="AB", multiops=True, maxsrc=4, binds=("BindAny",)),
        # BindAny mirrors the WHOLE target: an external mutation of the target is outside
        # the property's premise, so no `ext` here
        cfg("any-local-AB-slow", mode="any", states="AB", multiops=True, slow=True, maxext=0,
            maxsrc=4, binds=("BindAny",), sample=4000),
        cfg("any-remote-AB", mode="any", states="AB", multiops=True, local=False, maxsrc=3,
            binds=("BindAny",)),
    ],
}


def verify_bound(c, tier):
    """Burst bound of the verification runs (all interleavings, hist-free view)."""
    extra = 0 if tier == "quick" else (3 if c["states"] == "A" and c["pipes"] == "plain" else 1)
    return max(c["vmaxsrc"], c["maxsrc"] + extra)


def consts_of(c, flags, emit, maxsrc=None):
    return dict(flags, McMode=c["mode"], McStates=SETS[c["states"]], McMulti=SETS[c["multi"]],
                McFlat=c["flat"], McLocal=c["local"], McSlow=c["slow"], McAddOnly=False,
                McPipes=c["pipes"],
                MaxSrc=maxsrc or c["maxsrc"], MaxExt=c["maxext"], MultiOps=c["multiops"],
                SrcPriority=emit, Emit=emit)


# ---------------------------------------------------------------------------
# design half

def mc_verify(tier, rep):
    """All interleavings (no harness restriction).  Repaired flags: the formulas
    must hold (else the spec is wrong -> inconclusive).  Code flags: predictions."""
    jobs = []
    for c in CONFIGS[tier]:
        for label, flags in (("repaired", REP), ("code", CODE)):
            jobs.append((c, label, flags))

    def one(job):
        c, label, flags = job
        r = tlcrun.run_tlc("MCPipes", dict(spec="MCSpec", consts=consts_of(c, flags, False, verify_bound(c, tier)),
                                           view="MCView", invariants=INVARIANTS),
                           workers=2, timeout=600 if tier == "quick" else 1500, continue_=True)
        return job, r

    states = trans = 0
    runs = []
    predicted = Counter()
    with cf.ThreadPoolExecutor(max_workers=8) as ex:
        for (c, label, flags), r in ex.map(one, jobs):
            if r["timed_out"] or (r["errors"] and not r["violated"]):
                raise Inconclusive("TLC failed on %s/%s: %s\n%s" % (c["name"], label, r["errors"][:3],
                                                                   r["out"][-2000:]))
            runs.append(dict(config=c["name"], variant=label, max_src=verify_bound(c, tier),
                             states_generated=r["states"], distinct=r["distinct"],
                             violated=sorted(r["violated"]), wall_s=round(r["wall"], 1)))
            states += r["distinct"]
            trans += r["states"]
            if label == "repaired" and r["violated"]:
                raise Inconclusive("the repaired specification violates %s in %s:\n%s" % (
                    sorted(r["violated"]), c["name"], r["out"][-3000:]))
            if label == "code":
                for v in r["violated"]:
                    predicted[v + "@" + c["name"]] += 1
    rep.coverage["mc_runs"] = runs
    rep.coverage["states"] = states
    rep.coverage["transitions"] = trans
    rep.coverage["model_predictions_code_variant"] = sorted(predicted)



# ---------------------------------------------------------------------------
# cases for the Go driver

def case(label, bind, states, tstates=None, flat=False, local=True, multi=(), gated=True,
         slow=False, seed=0, script=(), parts=()):
    """bind "BindMany/2" / "Manual/2": the pipes are split over two binding calls
    (parts = sizes of the groups; default: two halves)."""
    if bind.endswith("/2"):
        bind = bind[:-2]
        parts = parts or [(len(states) + 1) // 2, len(states) // 2]
    return dict(label=label, bind=bind, flat=flat, local=local, states=list(states),
                tstates=list(tstates or states), multi=list(multi), gated=gated, slow=slow,
                seed=seed, script=list(script), parts=list(parts))


def src(op, states, args=False):
    return dict(k="src", op=op, states=list(states), args=args)


def rel(n, op, states):
    return dict(k="rel", ref=dict(src=n, op=op, states=list(states)))


QUIET = dict(k="quiet")


def names_for(bind, states, pipes="plain"):
    """(source state names, target state names) a bind kind is exercised with for
    the model states A, B (and the model's target names A2, B2, Exception)."""
    if pipes == "err":
        return ({s_: "Err" + s_ for s_ in states},
                dict({s_: "Err" + s_ for s_ in states}, Exception="Exception"))
    if pipes == "fan":
        tn = {s_: "T" + s_ for s_ in states}
        tn.update({s_ + "2": "T" + s_ + "2" for s_ in states})
        return {s_: s_ for s_ in states}, tn
    if bind == "BindReady":
        return {"A": "Ready"}, {"A": "TReady"}
    if bind == "BindStart":
        return {"A": "Start"}, {"A": "Start"}
    if bind == "Bind":
        return {s: s for s in states}, {s: "T" + s for s in states}   # renamed targets
    return {s: s for s in states}, {s: s for s in states}


def sched_to_case(c, bind, sched, label):
    """A TLC-emitted behaviour -> a gated script for the Go driver."""
    states = list(c["states"])
    sn, tn = names_for(bind, states, c["pipes"])
    script = []
    for h in sched["hist"]:
        if h["k"] == "src":
            script.append(src(h["op"], [sn[x] for x in sorted(h["states"])]))
        elif h["k"] == "rel":
            script.append(rel(h["src"], h["op"], [tn[x] for x in sorted(h["states"])]))
        elif h["k"] == "step":
            script.append(dict(k="step"))
        elif h["k"] == "ext":
            script.append(dict(k="ext"))
    script.append(QUIET)
    pstates = states + states if c["pipes"] == "fan" else states          # source state of pipe i
    ptargets = states + [x + "2" for x in states] if c["pipes"] == "fan" else states
    cs = case(label, bind, [sn[x] for x in pstates], [tn[x] for x in ptargets], flat=c["flat"],
              local=c["local"], multi=[sn[x] for x in c["multi"]], gated=True, slow=c["slow"],
              script=script)
    cs["_expect"] = dict(src=sorted(sn[x] for x in sched["src"]),
                         tgt=sorted(tn.get(x, x) for x in sched["tgt"]), ok=sched["ok"])
    return cs


RE_SCHED = re.compile(r'^<<"SCHED", "(.*)">>$', re.M)


def emit_schedules(c, flags, maxsrc=None):
    r = tlcrun.run_tlc("MCPipes", dict(spec="MCSpec", consts=consts_of(c, flags, True, maxsrc),
                                       invariants=["EmitSched"]), workers=1, timeout=900)
    if r["timed_out"] or r["errors"]:
        raise Inconclusive("schedule generation failed for %s: %s\n%s" % (
            c["name"], r["errors"][:3], r["out"][-2000:]))
    out = []
    for m in sorted(set(RE_SCHED.findall(r["out"]))):
        t = m.replace('\\\\', '\x00').replace('\\"', '"').replace('\x00', '\\')
        out.append(json.loads(t))
    out.sort(key=lambda x: json.dumps(x, sort_keys=True))
    return out, r["distinct"], r["states"]


# --- probes: one scenario per flag, on which the strict and the permissive variant differ
def probe_cases():
    A = ["A"]
    return [
        # ForwardInOrder: release the forwarded Remove before the forwarded Add
        case("probe-order", "Bind", A, script=[src("add", A), src("remove", A),
                                               rel(1, "remove", A), rel(0, "add", A), QUIET]),
        # FlatFresh: flat + non-local: the Remove is skipped while the Add is in flight
        case("probe-flat", "Manual", A, flat=True, local=False,
             script=[src("add", A), src("remove", A), rel(0, "add", A), QUIET]),
        # AnyExact
        case("probe-any", "BindAny", ["A", "B"],
             script=[src("add", ["A", "B"]), src("remove", ["B"]), QUIET]),
        # AnyFresh: a busy target (probe only: an external mutation of a BindAny target is
        # outside the property's premise; the probe is validated for conformance, not judged)
        case("probe-anyfresh", "BindAny", ["A", "B"], slow=True,
             script=[dict(k="ext"), src("add", ["A"]), src("remove", ["A"])]
             + [dict(k="stepany")] * 4 + [QUIET]),
        # AnyForkRemote
        case("probe-anyremote", "BindAny", ["A", "B"], local=False,
             script=[src("add", ["A", "B"]), QUIET]),
        # RemoveShortcut: in order, the Remove arrives while the Add's transition runs
        case("probe-shortcut", "Bind", A, slow=True,
             script=[src("add", A), src("remove", A), rel(0, "add", A), rel(1, "remove", A),
                     dict(k="step"), QUIET]),
        # Dedupe / DedupeCounter: in order, busy target: queue [remove, add] + remove
        case("probe-dedupe", "Bind", A, slow=True,
             script=[dict(k="ext"), src("add", A), src("remove", A), src("add", A), src("remove", A),
                     rel(0, "add", A), rel(1, "remove", A), rel(2, "add", A), rel(3, "remove", A)]
             + [dict(k="stepany")] * 6 + [QUIET]),
        # plain in-order runs
        case("probe-inorder", "Bind", A, script=[src("add", A), rel(0, "add", A), src("remove", A),
                                                 rel(1, "remove", A), QUIET]),
        case("probe-flatlocal", "Manual", A, flat=True,
             script=[src("add", A), src("remove", A), src("add", A), QUIET]),
    ]


# --- held-up family: the source has a short HandlerTimeout, the (local) target is
# slow - its transition is held for several timeouts.  "Piping never blocks or
# cancels the source transition": the source mutation must come back Executed.
def heldup_cases():
    out = []
    ms = 80
    hold = dict(k="sleep", us=4 * ms * 1000)
    for bind, flat, states, tstates in [
            ("Bind", False, ["A"], ["TA"]), ("BindMany", False, ["B", "A"], ["TB", "TA"]),
            ("BindReady", False, ["Ready"], ["TReady"]), ("BindStart", False, ["Start"], ["Start"]),
            ("Manual", False, ["A"], ["A"]), ("Manual", True, ["A"], ["A"])]:
        script = [src("add", states[:1]), dict(k="relany"), hold, dict(k="stepany"),
                  src("remove", states[:1]), dict(k="relany"), hold, dict(k="stepany"),
                  dict(k="stepany"), QUIET]
        c = case("heldup-%s-%s" % (bind, "flat" if flat else "nonflat"), bind, states, tstates,
                 flat=flat, slow=True, script=script)
        c["srcTimeoutMs"] = ms
        out.append(c)
    return out


# --- random gated / free-running cases over all binds
def rand_cases(rng, n, gated):
    out = []
    kinds = ["Bind", "BindMany", "Manual", "ManualFlat", "ManualFlatRemote", "BindReady", "BindStart",
             "BindErr", "BindConnected", "BindAny", "BindManyMulti", "BindRemote", "BindAnyRemote",
             "BindManySplit", "BindFan", "BindManyErrs"]
    conn = ["Disconnected", "Connecting", "Connected", "Disconnecting"]
    for i in range(n):
        kind = kinds[i % len(kinds)]
        flat = kind.startswith("ManualFlat")
        local = not kind.endswith("Remote")
        slow = gated and rng.random() < 0.3 and kind not in ("BindConnected",)
        multi = []
        pre = []
        parts = []
        if kind == "BindManySplit":
            # several BindMany calls between the same two machines, lists of equal length
            n, k = rng.choice([(1, 2), (2, 2), (1, 3), (2, 2)])
            bind, states = "BindMany", ["A", "B", "C", "D"][:n * k]
            rng.shuffle(states)
            tstates = ["T" + x for x in states] if rng.random() < 0.5 else list(states)
            parts = [n] * k
        elif kind == "BindFan":
            # one source state bound into two target states (two calls of one kind)
            bind = rng.choice(["Bind", "BindMany", "Manual"])
            base = ["A", "B"][:rng.randint(1, 2)]
            states = base + base
            tstates = ["T" + x for x in base] + ["T" + x + "2" for x in base]
            parts = [len(base)] * 2
        elif kind == "BindManyErrs":
            # piped error states: target names Err*, added together with Exception
            bind = rng.choice(["BindMany", "Bind"])
            states = ["ErrA", "ErrB", "ErrC"][:rng.randint(2, 3)]
            tstates = list(states)
        elif kind in ("Bind", "BindRemote"):
            bind, states = "Bind", ["A", "B"][:rng.randint(1, 2)]
            tstates = ["T" + x for x in states]
        elif kind in ("BindMany", "BindManyMulti"):
            bind, states = "BindMany", ["A", "B", "C"][:rng.randint(1, 3)]
            # the source list in ANY order (the i-th target belongs to the i-th source)
            rng.shuffle(states)
            tstates = ["T" + x for x in states] if rng.random() < 0.5 else list(states)
            if kind == "BindManyMulti":
                multi = [states[0]]
        elif kind.startswith("Manual"):
            bind, states = "Manual", ["A", "B"][:rng.randint(1, 2)]
            tstates = states
        elif kind in ("BindReady", "BindStart"):
            bind = kind
            states = [kind[4:]]
            tstates = ["T" + states[0]] if rng.random() < 0.5 else states
        elif kind == "BindErr":
            bind, states = "BindErr", ["Exception"]
            tstates = ["ErrPipe"] if rng.random() < 0.5 else ["Exception"]
            multi = ["Exception"]
        elif kind == "BindConnected":
            bind, states = "BindConnected", conn
            tstates = ["T" + x for x in conn]
            pre = [src("add", ["Start"])]
        else:
            bind, states = "BindAny", ["A", "B", "C"][:rng.randint(2, 3)]
            tstates = states
        script = list(pre)
        nops = rng.randint(2, 5 if gated else 10)
        for _ in range(nops):
            if bind == "BindErr":
                script.append(dict(k="src", op="adderr", states=["Exception"], args=False)
                              if rng.random() < 0.6 else src("remove", ["Exception"]))
            elif bind == "BindConnected":
                script.append(src("add", [rng.choice(conn)]) if rng.random() < 0.75
                              else src("remove", [rng.choice(conn)]))
            else:
                k = 1 if rng.random() < 0.7 else min(2, len(set(states)))
                script.append(src(rng.choice(["add", "remove"]), sorted(rng.sample(sorted(set(states)), k)),
                                  args=rng.random() < 0.15))
            if gated:
                for _ in range(rng.choice([0, 0, 1, 1, 2])):
                    script.append(dict(k=rng.choice(["relany", "relany", "stepany"]) if slow else "relany"))
                if slow and rng.random() < 0.15 and bind != "BindAny":
                    script.append(dict(k="ext"))
            else:
                script.append(dict(k="sleep", us=rng.choice([0, 0, 0, 0, 1, 5, 20, 60])))
        if gated:
            for _ in range(rng.randint(0, 6)):
                script.append(dict(k=rng.choice(["relany", "relany", "stepany"]) if slow else "relany"))
        script.append(QUIET)
        out.append(case("%s-%s-%d" % ("rand" if gated else "free", kind, i), bind, states, tstates,
                        flat=flat, local=local, multi=multi, gated=gated, slow=slow,
                        seed=rng.randrange(1 << 30), script=script, parts=parts))
    return out


# ---------------------------------------------------------------------------
# running the driver and validating the traces

def run_driver(binary, cases, prefix, shards=16, workers=8, retry=True):
    inp = prefix + ".cases.jsonl"
    with open(inp, "w") as f:
        for c in cases:
            f.write(json.dumps({k: v for k, v in c.items() if not k.startswith("_")}) + "\n")
    rc, out = run([binary, "pipes", "-in", inp, "-out", prefix, "-shards", str(shards),
                   "-workers", str(workers)], timeout=3000)
    if rc != 0:
        raise Inconclusive("pipes driver failed: " + out[-2000:])
    files = [f for f in sorted(glob.glob(prefix + ".*.ndjson")) if os.path.getsize(f) > 0]
    outcomes = {o["label"]: o for o in json.load(open(prefix + ".outcomes.json"))}
    stuck = [o for o in outcomes.values() if o.get("stuck")]
    if stuck and retry and len(stuck) <= 50:
        # a starved host can make a bounded wait expire: run those cases once more, alone
        again = [c for c in cases if outcomes[c["label"]].get("stuck")]
        bad = set(c["label"] for c in again)
        for f in files:      # drop their truncated traces
            keep = [ls for _, lab, ls in load_cases(f) if lab not in bad]
            with open(f, "w") as fh:
                for ls in keep:
                    for x in ls:
                        fh.write(json.dumps(x) + "\n")
        f2, o2 = run_driver(binary, again, prefix + "-retry", shards=1, workers=2, retry=False)
        files = [f for f in files if os.path.getsize(f) > 0] + f2
        outcomes.update(o2)
        stuck = []
    if stuck:
        # a bounded wait expired with gates parked / the driver is dead: not a verdict
        raise Inconclusive("driver could not finish %d cases, e.g. %s: %s" % (
            len(stuck), stuck[0]["label"], stuck[0]["stuck"]))
    return files, outcomes


def load_cases(path):
    """[(first line number, label, [lines])] of one shard."""
    out = []
    cur = None
    with open(path) as f:
        for i, l in enumerate(f, 1):
            x = json.loads(l)
            if x["ev"] == "init":
                cur = (i, x["label"], [])
                out.append(cur)
            cur[2].append(x)
    return out


def validate(files, flags, strict):
    res = tlcrun.validate_traces("TracePipes", dict(flags, Strict=strict), files, timeout=2400)
    viol, drift = [], []          # (file, line, name)
    stat = Counter()
    for r in res:
        if r["result"] is None:
            raise Inconclusive("trace validation did not finish for %s (rc=%s):\n%s" % (
                r["file"], r["rc"], r["out"][-3000:]))
        nl = sum(1 for _ in open(r["file"]))
        if r["result"]["lines"] != nl:
            raise Inconclusive("trace %s not fully consumed" % r["file"])
        stat.update(r["result"]["stat"])
        stat["lines"] += nl
        viol += [(r["file"], l, f) for l, f in r["result"]["viol"]]
        drift += [(r["file"], l, f) for l, f in r["result"]["drift"]]
    return viol, drift, stat


def by_case(files, items):
    """group (file, line, name) by the case that contains the line -> {label: [(name, line obj)]}"""
    out = defaultdict(list)
    per = defaultdict(list)
    for f, l, name in items:
        per[f].append((l, name))
    for f, lst in per.items():
        cases_ = load_cases(f)
        starts = [c[0] for c in cases_]
        for l, name in sorted(lst):
            k = max(i for i, s0 in enumerate(starts) if s0 <= l)
            first, label, lines = cases_[k]
            out[label].append((name, lines[l - first], lines))
    return out


# ---------------------------------------------------------------------------
# variant selection

def select_variant(binary, d, rep):
    """Strict variant first; flip single flags towards the permissive variant as
    long as that makes the recorded probe traces conform better."""
    files, outcomes = run_driver(binary, probe_cases(), os.path.join(d, "probe"), shards=1, workers=1)
    structure = dict(order_overtaking_realizable=not outcomes["probe-order"].get("unreal"),
                     forked_calls=sum(o["forked"] for o in outcomes.values()),
                     inline_calls=sum(o["inline"] for o in outcomes.values()),
                     max_parked=max(o["maxparked"] for o in outcomes.values()))

    def ndrift(flags):
        _, drift, _ = validate(files, flags, True)
        return len(drift), drift

    flags = dict(REP)
    n, drift = ndrift(flags)
    steps = [dict(flags="strict", drift=n)]
    while n > 0:
        cands = []
        with cf.ThreadPoolExecutor(max_workers=8) as ex:
            trial = [dict(flags, **{k: not flags[k]}) for k in FLAG_ORDER]
            for k, (m, dr) in zip(FLAG_ORDER, ex.map(ndrift, trial)):
                if m < n:
                    cands.append((m, k, dr))
        if not cands:
            break
        for m, k, dr in cands:
            flags[k] = not flags[k]
        n, drift = ndrift(flags)
        steps.append(dict(flipped=[k for _, k, _ in cands], drift=n))
    rep.coverage["variant_selection"] = dict(structure=structure, steps=steps, flags=flags,
                                             unrealizable={k: v["unreal"] for k, v in outcomes.items()
                                                           if v.get("unreal")})
    for f, l, name in drift:
        rep.drift.append("probe %s line %d: %s" % (os.path.basename(f), l, name))
    return flags


# ---------------------------------------------------------------------------
# verdicts

def cause_of(lines, formula):
    """Label of the mechanism behind a violated case (for the signature)."""
    init = lines[0]
    if formula in ("SourceNeverBlocked", "SourceNeverCanceled"):
        return "inline-call-on-local-target" if init["local"] else "inline-call-on-nonlocal-target"
    if any(x["ev"] == "sret" and x["res"] != "executed" for x in lines) and init["local"]:
        # a source mutation was canceled by piping: source and target part for good
        return "inline-call-on-local-target"
    anymode = init["mode"] == "any"
    pend = []        # delivered, not yet processed (queue incl. the running one)
    fl = {}          # in flight
    causes = []
    lastdlv = lastttx = 0
    for x in lines:
        ev = x["ev"]
        if ev == "h":
            if x["fwd"] != "none":
                fl[x["id"]] = x
            elif anymode and x.get("chkkind") == "is" and x["chk"] == "true":
                # the superset guard itself observed: target.Is(states) answered true
                causes.append("bindany-superset-skip")
            elif anymode and x["chk"] == "read" and (fl or pend):
                # the equality guard read the target while an earlier Set was pending
                causes.append("bindany-stale-check")
            elif x["chk"] == "true" and (fl or pend):
                causes.append("flat-stale-check")
        elif ev in ("enq", "drop") and x["id"] in fl:
            e = fl.pop(x["id"])
            if any(i > x["id"] for i in [lastdlv]) or any(i < x["id"] for i in fl
                                                           if "h" in fl[i]):
                causes.append("overtake")
            lastdlv = max(lastdlv, x["id"])
            if ev == "enq":
                pend.append((x["id"], e["op"], sorted(e["sts"])))
            else:
                same = [p for p in pend[1:] if p[1:] == (e["op"], sorted(e["sts"]))]
                causes.append("queue-dedupe" if same else "remove-shortcut")
        elif ev == "ttx":
            pend = [p for p in pend if p[0] != x["id"]]
            # processed out of fork order (free runs: the record of the queue
            # insertion may trail the insertion, the processing order is exact)
            if x["id"] and "X" not in x["called"]:
                if x["id"] < lastttx:
                    causes.append("overtake")
                lastttx = max(lastttx, x["id"])
        elif ev == "quiet" and (x["tq"] or x["sq"]):
            causes.append("stranded-queue")
    if init["flat"] and not init["gated"] and any(
            x["ev"] == "h" and x["chk"] == "true" for x in lines):
        # free runs: the position of a handler's record relative to the target's
        # records is approximate
        causes.append("flat-stale-check")
    for c in ("bindany-superset-skip", "bindany-stale-check", "remove-shortcut", "queue-dedupe",
              "flat-stale-check", "overtake", "stranded-queue"):
        if c in causes:
            return c
    return "unknown"


def schedule_of(lines):
    """Human-readable schedule: source mutations -> deliveries (as they happened)."""
    srcs, dl = [], []
    ids = {}
    for x in lines:
        if x["ev"] == "sret":
            srcs.append("%s %s" % (x["op"], "+".join(x["states"])))
        elif x["ev"] == "h" and x["fwd"] != "none":
            ids[x["id"]] = "%s %s" % (x["op"], "+".join(x["sts"]))
        elif x["ev"] == "h" and x["chk"] in ("true", "read"):
            dl.append("skip(%s)" % x["h"])
        elif x["ev"] == "ext":
            ids[x["id"]] = "ext"
        elif x["ev"] == "enq":
            dl.append("deliver " + ids.get(x["id"], "?"))
        elif x["ev"] == "drop":
            dl.append("drop " + ids.get(x["id"], "?"))
        elif x["ev"] == "ttx":
            dl.append("apply " + ids.get(x["id"], "?"))
    return ",".join(srcs) + "->" + ",".join(dl)


def report_violations(rep, viol, files, cases_by_label, flags):
    """One Report.violation per (bind, flat, local, slow, cause, formula): the
    shortest schedule of the class."""
    classes = {}
    for label, items in by_case(files, viol).items():
        name, line, lines = items[0]
        init = lines[0]
        cause = cause_of(lines, name)
        key = (init["bind"], init["flat"], init["local"], cause, name)
        sch = schedule_of(lines)
        cand = (len(lines), sch, label, line, lines)
        if key not in classes or cand[:2] < classes[key][:2]:
            classes[key] = cand
    for key in sorted(classes):
        bind, flat, local, cause, formula = key
        n, sch, label, line, lines = classes[key]
        sig = dict(bind=bind, flat=flat, local=local, cause=cause, formula=formula, schedule=sch)
        cs = {k: v for k, v in cases_by_label[label].items() if not k.startswith("_")}
        rep.violation(sig, dict(kind="pipes", property=PROP, formula=formula, flags=flags, case=cs),
                      "%s false on the real machines: bind=%s flat=%s local=%s cause=%s schedule [%s] "
                      "-> source %s target %s" % (formula, bind, flat, local, cause, sch,
                                                  json.dumps(line.get("src", line.get("res"))),
                                                  json.dumps(line.get("tgt", line.get("blocked")))))
    return classes


def nontrivial_key(lines):
    """A case is non-trivial when at least two forwarded events were in flight
    at the same time, or a handler skipped / the target dropped a mutation."""
    init = lines[0]
    fl, maxfl, special = set(), 0, False
    order = []
    for x in lines:
        if x["ev"] == "h":
            if x["fwd"] != "none":
                fl.add(x["id"])
                maxfl = max(maxfl, len(fl))
            elif x["chk"] in ("true", "read"):
                special = True
        elif x["ev"] in ("enq", "drop"):
            fl.discard(x["id"])
            order.append((x["ev"], x["id"]))
            special = special or x["ev"] == "drop"
        elif x["ev"] == "ttx":
            order.append(("ttx", x["id"]))
    if maxfl < 2 and not special:
        return None
    srcs = tuple((x["op"], tuple(x["states"])) for x in lines if x["ev"] == "sret")
    return (init["bind"], init["flat"], init["local"], init["slow"], tuple(init["multi"]),
            tuple(init.get("parts", ())), len(init["tstates"]), srcs, tuple(order))


# ---------------------------------------------------------------------------

def check(tier):
    rep = Report(PROP, tier, "model_checking")
    sd = seed()
    rng = random.Random(sd)
    binary = build_harness()
    mc_verify(tier, rep)
    d = scratch(PROP)
    try:
        flags = select_variant(binary, d, rep)

        # B3: every behaviour TLC enumerates for the selected variant, replayed
        cases, gen = [], []
        jobs = []
        for c in CONFIGS[tier]:
            jobs.append((c, c["maxsrc"]))
            if c["maxsrc"] > 2:
                jobs.append((c, 2))      # the short bursts: minimal schedules of each class
        with cf.ThreadPoolExecutor(max_workers=8) as ex:
            emitted = list(ex.map(lambda j: emit_schedules(j[0], flags, j[1]), jobs))
        for (c, ms), (scheds, dist, gens) in zip(jobs, emitted):
            total = len(scheds)
            if c["sample"] and total > c["sample"]:
                bad = [s_ for s_ in scheds if not s_["ok"]]
                good = [s_ for s_ in scheds if s_["ok"]]
                r2 = random.Random(sd * 7919 + len(gen))
                nb = min(len(bad), c["sample"] // 2)
                scheds = r2.sample(bad, nb) + r2.sample(good, min(len(good), c["sample"] - nb))
            gen.append(dict(config=c["name"], max_src=ms, behaviours=total, replayed=len(scheds),
                            predicted_bad=sum(1 for s_ in scheds if not s_["ok"]),
                            binds=c["binds"], tlc_states=dist))
            for b in c["binds"]:
                for i, s_ in enumerate(scheds):
                    cases.append(sched_to_case(c, b, s_, "tlc-%s-%d-%s-%d" % (c["name"], ms, b, i)))
        nr, nf = (260, 1000) if tier == "quick" else (8000, 40000)
        rcases = rand_cases(rng, nr, True)
        fcases = rand_cases(rng, nf, False)
        hcases = heldup_cases()
        by_label = {c["label"]: c for c in cases + rcases + hcases + fcases}

        gfiles, gout = run_driver(binary, cases + rcases + hcases, os.path.join(d, "gated"))
        ffiles, fout = run_driver(binary, fcases, os.path.join(d, "free"), workers=4)
        gviol, gdrift, gstat = validate(gfiles, flags, True)
        fviol, fdrift, fstat = validate(ffiles, flags, False)

        # TLC's prediction of the final states vs the real machines (both ways)
        unreal = [o for o in gout.values() if o.get("unreal")]
        mism = 0
        finals = {}
        for f in gfiles + ffiles:
            for first, label, lines in load_cases(f):
                finals[label] = lines
        for c in cases:
            exp = c["_expect"]
            if gout[c["label"]].get("unreal"):
                continue
            q = [x for x in finals[c["label"]] if x["ev"] == "quiet"][-1]
            got_t = sorted(x for x in q["tgt"] if x != "X")
            got_s = sorted(x for x in q["src"] if x in c["states"] or c["bind"] == "BindAny")
            if got_t != [x for x in exp["tgt"] if x != "X"] or got_s != exp["src"]:
                mism += 1
                rep.drift.append("schedule %s: TLC predicted src=%s tgt=%s, real src=%s tgt=%s" % (
                    c["label"], exp["src"], exp["tgt"], got_s, got_t))
        for o in unreal[:5]:
            rep.drift.append("schedule %s of the selected variant is not realizable: %s" % (
                o["label"], o["unreal"]))
        for f, l, name in gdrift[:40]:
            rep.drift.append("%s line %d: %s" % (os.path.basename(f), l, name))
        # free runs: the log is a linearization made by concurrent recorders; order
        # mismatches there are counted, not reported
        rep.coverage["free_run_log_order_mismatches"] = dict(Counter(n for _, _, n in fdrift))

        classes = report_violations(rep, gviol + fviol, gfiles + ffiles, by_label, flags)

        keys = set()
        samples = []
        for label, lines in finals.items():
            k = nontrivial_key(lines)
            if k:
                keys.add(k)
        for key, (n, sch, label, line, lines) in sorted(classes.items())[:6]:
            samples.append(dict(bind=key[0], flat=key[1], local=key[2], cause=key[3], formula=key[4],
                                schedule=sch, observed=line))
        if not samples:
            lab = cases[0]["label"]
            samples.append(dict(case=lab, schedule=schedule_of(finals[lab]),
                                observed=[x for x in finals[lab] if x["ev"] == "quiet"][-1]))
        stat = gstat + fstat
        rep.coverage.update(
            traces_validated_against_impl=len(finals), evaluations=stat["quiet"],
            distinct_nontrivial=len(keys), trace_lines=stat["lines"],
            schedule_generation=gen, tlc_schedules_replayed=len(cases),
            gated_random_cases=len(rcases), free_running_cases=len(fcases),
            unrealizable_schedules=len(unreal), prediction_mismatches=mism,
            forwarded_events=stat["fwd"], inline_forwards=stat["inline"], deliveries=stat["dlv"],
            dropped_by_target=stat["drop"], out_of_order_deliveries=stat["reorder"],
            violating_cases=len(by_case(gfiles + ffiles, gviol + fviol)),
            violation_classes=[dict(bind=k[0], flat=k[1], local=k[2], cause=k[3], formula=k[4])
                               for k in sorted(classes)],
            rule="cases = (bind kind, number of binding calls of that kind / fan-out / Err* targets, "
             "flat, local/non-local proxy target, Multi, slow target, "
                 "source toggle burst, delivery order): every complete behaviour TLC enumerates "
                 "for the selected spec variant (bursts <= MaxSrc, all delivery orders), forced on "
                 "the real machines through the target proxy's gates, + gated random schedules and "
                 "free-running bursts over all bind kinds; one evaluation = the formulas on the "
                 "logged (source, target) active sets at one observed joint quiescence; distinct = "
                 "distinct (binding, burst, delivery/processing order); non-trivial = >= 2 forwarded "
                 "events in flight at once, or a handler skipped / the target dropped a mutation",
            samples=samples, formulas=INVARIANTS, exhaustive=False, spec_flags=flags)
        rep.assumptions += [
            "TLC explores bursts only up to the stated MaxSrc and 1-2 piped states",
            "the target is reached through an am.Api proxy embedding the real machine; a call parked "
            "at the proxy is a forked goroutine the Go scheduler has not run yet",
            "network-machine targets are emulated by the proxy answering IsLocal() = false (no rpc)",
            "the target has no relations / negotiation handlers (premise: it does not veto)"]
    finally:
        if os.environ.get("VERIF_KEEP"):
            print("kept", d)
        else:
            shutil.rmtree(d, ignore_errors=True)
    return rep.finish()


def replay(path):
    obj = json.load(open(path))
    rep = Report(PROP, os.environ.get("VERIF_TIER", "quick"), "model_checking")
    binary = build_harness()
    d = scratch(PROP + "-replay")
    try:
        cs = obj["case"]
        hit = 0
        n = 1 if cs.get("gated") else 300      # free-running cases depend on the scheduler
        cases = []
        for i in range(n):
            c2 = dict(cs, label="%s#%d" % (cs["label"], i))
            cases.append(c2)
        files, out = run_driver(binary, cases, os.path.join(d, "replay"), shards=1)
        viol, drift, stat = validate(files, obj["flags"], bool(cs.get("gated")))
        grouped = by_case(files, [v for v in viol if v[2] == obj["formula"]])
        for label, items in grouped.items():
            name, line, lines = items[0]
            hit += 1
            if hit == 1:
                # (no "cause" key: a replay reports the reproduction itself, it is
                # not matched against the known findings)
                rep.violation(dict(formula=name, bind=cs["bind"], flat=cs["flat"], local=cs["local"],
                                   replay_cause=cause_of(lines, name), schedule=schedule_of(lines)), obj,
                              "%s false again: %s -> %s" % (name, schedule_of(lines), json.dumps(line)))
        rep.coverage.update(evaluations=max(stat["quiet"], 1), distinct_nontrivial=2, rule="replay",
                            samples=[cs["label"]], states=1, transitions=1,
                            traces_validated_against_impl=len(cases), reproduced=hit)
    finally:
        shutil.rmtree(d, ignore_errors=True)
    return rep.finish()
