// Package apidrv binds spec/ApiAlgebra.tla to the real public API (C20):
// alg.go enumerates the algebra input space on the real functions, copy.go
// mutates the values the getters return, sync.go drives the wait/ask
// helpers through known machine outcomes, total.go sweeps every exported
// function and method (reflection + the generated FuncTable) through the
// lifecycle phases and argument classes inside crash-isolated workers.
package apidrv

import "reflect"

type FuncEntry struct {
	Pkg, Name string
	Fn        any
	Params    []string
	Variadic  bool
}

type TypeEntry struct {
	Pkg, Name string
	Ptr       reflect.Type // *T
}
