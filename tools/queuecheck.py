#!/usr/bin/env python3
"""C04 -- one queue, one transition at a time, in order, none lost.

design half : TLC checks spec/Queue.tla (N callers racing on the CAS of
              processQueue, handlers that nest mutations) exhaustively:
              Mutex, NoStranding, NoneLost, TickOrder, TickCount, NoNesting,
              WhenQueueClosed as invariants and EventuallyProcessed under weak
              fairness.  Every mutation has an outcome (clock moved / accepted
              no-op / vetoed); the WhenQueue bindings (`wq`) are closed by the
              end of the transition of their tick whatever its outcome.
binding half: the harness FORCES interleavings on the real machine through the
              verif gate hooks (qm.done, pq.enter, pq.casLost/casWon, pq.popped,
              pq.loopExit, pq.released, pq.queueEnd): every schedule of
              2 callers x 1 mutation is enumerated (stateless depth-first
              search, each schedule a fresh machine), larger scenarios are
              sampled; the recorded gate sequence of every execution is
              validated by TLC against Queue.tla (each event must be the
              Queue action of that caller, with the logged queue length, queue
              tick and flag) and the C04 formulas are evaluated on the logged
              end state (queue empty, every returned tick processed, WhenQueue
              closed - accepted or canceled -, nothing lost, tick order, no
              two handlers / eval functions at once) and, at every gate, the
              open WhenQueue channels (= Queue.tla `wq`, WhenQueueClosed on the
              logged values).  Scenario families: plain Adds, nesting handlers,
              vetoes, Eval / CanAdd, accepted no-ops (add of an active
              non-Multi state) issued by callers and by handlers.  Free-running executions
              (8 goroutines, Add/Remove/CanAdd/Eval, nesting handlers) are
              judged on their end state.
"""
import glob, json, os, shutil, sys

sys.path.insert(0, os.path.dirname(os.path.abspath(__file__)))
import tlcrun
from common import *

PROP = "C04"
INV = ["Mutex", "NoStranding", "NoneLost", "TickOrder", "TickCount", "NoNesting", "WhenQueueClosed"]


def codes(spec):
    """'1.1,n2.1' -> '{11, 121}' (n = the mutation nested by that one)"""
    out = []
    for x in spec.split(","):
        if x:
            a, b = x.lstrip("n").split(".")
            out.append(str((100 if x.startswith("n") else 0) + int(a) * 10 + int(b)))
    return "{" + ", ".join(out) + "}"


def sc_codes(items):
    return "{" + ", ".join(str((100 if len(x) == 3 else 0) + x[0] * 10 + x[1]) for x in items) + "}"


def cset(n):
    return "{" + ", ".join(str(i) for i in range(1, n + 1)) + "}"


def check(tier):
    rep = Report(PROP, tier, "model_checking")
    sd = seed()
    binary = build_harness()
    # ---- design half
    # (callers, muts, nest, prep, noop, veto): the outcome of a transition - clock moved,
    # accepted no-op, vetoed - per mutation (10c+k) and per nested mutation (100+10c+k)
    mcs = [(2, 2, "{11}", "{22}", "{12, 111}", "{21}"), (3, 1, "{11}", "{21}", "{31}", "{}")] if tier == "quick" else \
          [(2, 2, "{11, 21}", "{}", "{111, 22}", "{12}"), (2, 2, "{11}", "{12, 21}", "{22}", "{}"),
           (3, 1, "{11}", "{31}", "{21, 111}", "{}"),
           (3, 2, "{11}", "{21, 32}", "{12, 31}", "{22}"), (4, 1, "{}", "{11}", "{21, 41}", "{31}")]
    runs = []
    for n, muts, nest, prepc, noopc, vetoc in mcs:
        consts = dict(Callers=cset(n), MutsPer=muts, NestCodes=nest, PrepCodes=prepc, Recheck=True,
                      NoopCodes=noopc, VetoCodes=vetoc)
        r = tlcrun.run_tlc("MCQueue", dict(spec="Spec", consts=consts, invariants=INV),
                           workers=8, timeout=1200)
        if r["violated"] or (r["errors"] and not r["timed_out"]):
            raise Inconclusive("Queue.tla violates its formulas: %s %s" % (r["violated"], r["errors"][:2]))
        runs.append(dict(config="callers=%d muts=%d nest=%s noop=%s veto=%s" % (n, muts, nest, noopc, vetoc),
                         states_generated=r["states"], distinct=r["distinct"],
                         wall_s=round(r["wall"], 1), timed_out=r["timed_out"]))
    # liveness on the unconstrained fair spec
    r = tlcrun.run_tlc("MCQueue", dict(spec="FairSpec", consts=dict(Callers=cset(2), MutsPer=2,
                       NestCodes="{11}", PrepCodes="{22}", Recheck=True, NoopCodes="{12, 111}", VetoCodes="{21}"),
                       properties=["EventuallyProcessed"]),
                       workers=4, timeout=900)
    if r["violated"] or "Temporal properties were violated" in r["out"] or \
            (r["errors"] and not r["timed_out"]):
        raise Inconclusive("Queue.tla violates EventuallyProcessed: %s" % r["out"][-1500:])
    runs.append(dict(config="liveness callers=2 muts=2 nest={11}", states_generated=r["states"],
                     distinct=r["distinct"], wall_s=round(r["wall"], 1)))
    rep.coverage["mc_runs"] = runs
    rep.coverage["states"] = sum(x["distinct"] for x in runs)
    rep.coverage["transitions"] = sum(x["states_generated"] for x in runs)
    # ---- binding half
    d = scratch(PROP)
    try:
        # (callers, muts, nest, veto, mode)
        if tier == "quick":
            plan = [(2, 1, "", "", "", ["-enum", "-max", "4000"]),
                    (2, 1, "", "2.1", "", ["-random", "500"]),
                    (2, 2, "1.1", "", "", ["-random", "300"]),
                    (3, 1, "1.1", "3.1", "", ["-random", "300"]),
                    (2, 1, "", "", "1.1", ["-enum", "-max", "3000"]),       # Eval vs Add
                    (3, 2, "", "", "2.2,3.1", ["-random", "400"]),          # CanAdd / Eval queued behind a drain
                    # accepted no-ops (remove of an inactive / add of an active state), from callers
                    # and from handlers, also as the LAST mutation of the queue
                    (3, 1, "2.1", "3.1", "", ["-random", "200"], "1.1,n2.1"),
                    (8, 40, "", "", "", ["-free", "100"])]
        else:
            # measured: a forced schedule costs 30-60 ms wall (gate hand-offs), so one
            # enumeration of 15 000 schedules is 10-15 min on a quiet 16-core host
            plan = [(2, 1, "", "", "", ["-enum"]),
                    (2, 1, "1.1", "", "", ["-enum", "-max", "15000"]),
                    (2, 1, "", "2.1", "", ["-enum", "-max", "15000"]),
                    (2, 1, "", "", "1.1", ["-enum", "-max", "15000"]),
                    (2, 2, "1.1", "", "", ["-enum", "-max", "15000"]),
                    (2, 2, "", "", "1.2,2.1", ["-enum", "-max", "15000"]),
                    (3, 1, "1.1", "3.1", "", ["-random", "10000"]),
                    (3, 2, "1.1,2.2", "", "", ["-random", "5000"]),
                    (3, 2, "", "", "2.2,3.1", ["-random", "5000"]),
                    (4, 2, "1.1", "2.1", "3.2,4.1", ["-random", "3000"]),
                    (2, 1, "", "", "", ["-enum", "-max", "15000"], "2.1"),
                    (2, 1, "1.1", "", "", ["-enum", "-max", "15000"], "n1.1"),
                    (2, 2, "1.1", "", "", ["-random", "5000"], "1.2,2.1,n1.1"),
                    (3, 2, "2.1", "3.1", "", ["-random", "5000"], "1.1,1.2,n2.1,3.2"),
                    (8, 40, "", "", "", ["-free", "1000"]),
                    (16, 25, "", "", "", ["-free", "500"])]
        nexec = nlines = 0
        samples = []
        distinct = set()
        for i, item in enumerate(plan):
            n, muts, nest, veto, prep, mode = item[:6]
            noop = item[6] if len(item) > 6 else ""
            pref = os.path.join(d, "q%d" % i)
            cmd = [binary, "queue", "-callers", str(n), "-muts", str(muts), "-seed", str(sd * 10 + i),
                   "-out", pref] + mode
            if nest:
                cmd += ["-nest", nest]
            if veto:
                cmd += ["-veto", veto]
            if prep:
                cmd += ["-prep", prep]
            if noop:
                cmd += ["-noop", noop]
            rc, out = run(cmd, timeout=3000 if tier == "quick" else 9000)
            if rc != 0:
                raise Inconclusive("queue driver failed: " + out[-2000:])
            st = json.loads(out.strip().splitlines()[-1])
            if st["stuck"]:
                rep.notes.append("%d executions had a role that did not reach a gate in time" % st["stuck"])
            files = sorted(glob.glob(pref + ".*.ndjson"))
            nestcodes = "{" + ", ".join(str(int(x.split(".")[0]) * 10 + int(x.split(".")[1]))
                                        for x in nest.split(",") if x) + "}"
            prepcodes = "{" + ", ".join(str(int(x.split(".")[0]) * 10 + int(x.split(".")[1]))
                                        for x in prep.split(",") if x) + "}"
            consts = dict(Callers=cset(n), MutsPer=muts, NestCodes=nestcodes if "-free" not in mode else "{}",
                          PrepCodes=prepcodes, Recheck=True, NoopCodes=codes(noop), VetoCodes=codes(veto))
            res = tlcrun.validate_traces("TraceQueue", consts, files, timeout=3000)
            for r in res:
                if r["result"] is None:
                    raise Inconclusive("trace validation failed for %s: %s" % (r["file"], r["out"][-2000:]))
                nl = sum(1 for _ in open(r["file"]))
                if r["result"]["lines"] != nl:
                    raise Inconclusive("trace not fully consumed: " + r["file"])
                nlines += nl
                nexec += r["result"]["ntx"]
                for l, f in r["result"]["viol"]:
                    # the execution = lines from the preceding qinit up to its qend
                    lines = open(r["file"]).read().splitlines()
                    s = l - 1
                    while not lines[s].startswith('{"ev":"qinit"'):
                        s -= 1
                    e = l - 1
                    while not lines[e].startswith('{"ev":"qend"'):
                        e += 1
                    init, end = json.loads(lines[s]), json.loads(lines[e])
                    sig = dict(formula=f, scenario={k: init[k] for k in ("callers", "mutsPer", "nest", "veto", "prep", "noop")},
                               sched=end.get("sched"))
                    rep.violation(sig, dict(kind="queue", property=PROP, formula=f,
                                            scenario=sig["scenario"], sched=end.get("sched"),
                                            free=end.get("free", False), end=end),
                                  "%s: scenario %s schedule %s end state %s" % (
                                      f, sig["scenario"], end.get("sched"), json.dumps(end)[:300]))
                for l, f in r["result"]["drift"]:
                    rep.drift.append("%s line %d: %s" % (os.path.basename(r["file"]), l, f))
            for fn in files:
                for ln in open(fn):
                    if ln.startswith('{"ev":"qend"'):
                        e = json.loads(ln)
                        distinct.add((n, muts, nest, veto, prep, noop, tuple(e.get("sched") or [])))
                        if len(samples) < 3 and any(x["res"] == "queued" for x in e["returned"]):
                            samples.append(dict(scenario=dict(callers=n, muts=muts, nest=nest, veto=veto, noop=noop),
                                                schedule=e.get("sched"), returned=e["returned"][:4],
                                                qlen=e["qlen"], qtick=e["qtick"]))
        rep.coverage.update(
            traces_validated_against_impl=nexec, evaluations=nexec, distinct_nontrivial=len(distinct),
            trace_lines=nlines, exhaustive=False,
            exhaustive_part="thorough tier: all schedules of 2 callers x 1 mutation at hook granularity; quick tier: the first 4000 in depth-first order",
            rule="one evaluation = one execution of the real machine under a forced schedule "
                 "(sequence of caller ids; a caller runs from one verif hook point to the next) or "
                 "one free-running execution; distinct = distinct (scenario, schedule taken)",
            samples=samples or [dict(note="no queued sample")])
        rep.assumptions += [
            "interleavings are enumerated at hook-point granularity; the Go scheduler between two hook points is not enumerated",
            "Queue.tla models the repaired processQueue (Recheck=TRUE)"]
    finally:
        shutil.rmtree(d, ignore_errors=True)
    return rep.finish()


def replay(path):
    obj = json.load(open(path))
    rep = Report(PROP, os.environ.get("VERIF_TIER", "quick"), "model_checking")
    binary = build_harness()
    d = scratch(PROP + "-replay")
    try:
        sc = obj["scenario"]
        if obj.get("free"):
            cmd = [binary, "queue", "-callers", str(sc["callers"]), "-muts", str(sc["mutsPer"]),
                   "-free", "300", "-out", os.path.join(d, "r"), "-shards", "1"]
            nest = "{}"
        else:
            with open(os.path.join(d, "s.json"), "w") as f:
                json.dump([dict(scenario=sc, sched=obj["sched"], label="replay")], f)
            cmd = [binary, "queue", "-sched", os.path.join(d, "s.json"), "-out", os.path.join(d, "r"),
                   "-shards", "1"]
            nest = "{" + ", ".join(str(a * 10 + b) for a, b in sc["nest"]) + "}"
        prepc = "{" + ", ".join(str(a * 10 + b) for a, b in sc.get("prep", [])) + "}"
        rc, out = run(cmd, timeout=600)
        if rc != 0:
            raise Inconclusive(out[-1500:])
        consts = dict(Callers=cset(sc["callers"]), MutsPer=sc["mutsPer"], NestCodes=nest, PrepCodes=prepc, Recheck=True,
                      NoopCodes=sc_codes(sc.get("noop", [])),
                      VetoCodes="{}" if obj.get("free") else sc_codes(sc.get("veto", [])))
        res = tlcrun.validate_traces("TraceQueue", consts, [os.path.join(d, "r.0.ndjson")])
        for r in res:
            if r["result"] is None:
                raise Inconclusive(r["out"][-1500:])
            for l, f in r["result"]["viol"]:
                rep.violation(dict(formula=f, replay=True), obj, "replayed schedule violates " + f)
        rep.coverage.update(evaluations=1, distinct_nontrivial=2, rule="replay", samples=[obj.get("sched")],
                            states=1, transitions=1, traces_validated_against_impl=1)
    finally:
        shutil.rmtree(d, ignore_errors=True)
    return rep.finish()
