package main

import (
	"encoding/json"
	"flag"
	"fmt"
	"os"

	"verifharness/apidrv"
)

func init() { commands["api"] = cmdApi }

// cmdApi drives the public API for C20 and writes ndjson shards
// <out>.<k>.ndjson for spec/TraceApiAlgebra.tla.
//
//	-mode alg     enumerate the algebra input space on the real functions
//	-mode copy    mutate values returned by the copying getters
//	-mode help    wait/ask helpers in known scenarios, the async helpers
//	              through every timing of the awaited activation
//	-mode total   totality sweep (coordinator; spawns -mode worker processes)
//	-mode worker  one crash-isolated worker of the sweep
//	-mode list    print the call list of the sweep
//	-mode one     replay one call of the sweep (-fn -phase -cls)
func cmdApi(args []string) int {
	fs := flag.NewFlagSet("api", flag.ExitOnError)
	mode := fs.String("mode", "alg", "alg|copy|help|total|worker|list|one")
	out := fs.String("out", "trace", "output prefix")
	shards := fs.Int("shards", 16, "number of output shards")
	maxLen := fs.Int("maxlen", 3, "alg: max list length (unary/binary functions)")
	maxLenVar := fs.Int("maxlenvar", 2, "alg: max list length (variadic functions)")
	maxVar := fs.Int("maxvar", 2, "alg: max number of variadic lists")
	maxQueue := fs.Int("maxqueue", 2, "alg: max queue length")
	queueFull := fs.Bool("queuefull", false, "alg: full IsQueued query space for every queue")
	parts := fs.String("parts", "lists,time,queue", "alg: parts to run")
	seed := fs.Int64("seed", 1, "seed")
	workers := fs.Int("workers", 16, "total: worker processes")
	from := fs.Int("from", 0, "worker: first call index")
	stride := fs.Int("stride", 1, "worker: stride")
	offset := fs.Int("offset", 0, "worker: offset")
	journal := fs.String("journal", "", "worker: journal file")
	fn := fs.String("fn", "", "one/list: function filter")
	phase := fs.String("phase", "", "one: phase")
	cls := fs.String("cls", "", "one: argument class")
	deadline := fs.Int("deadline", 1500, "total: per-call deadline (ms)")
	asyncReps := fs.Int("asyncreps", 1, "help: repetitions of every async helper case (jittered)")
	maxList := fs.Int("maxlist", 2, "help: max length of the member lists of the Sync helpers")
	fs.Parse(args)
	apidrv.SetSeed(*seed)

	switch *mode {
	case "alg", "copy", "help":
		o, err := apidrv.NewOut(*out, *shards)
		if err != nil {
			fmt.Fprintln(os.Stderr, err)
			return 2
		}
		switch *mode {
		case "alg":
			opt := apidrv.AlgOpts{MaxLen: *maxLen, MaxLenVar: *maxLenVar, MaxVar: *maxVar,
				MaxQueue: *maxQueue, QueueFull: *queueFull, SkipLists: true, SkipTime: true, SkipQueue: true}
			for _, p := range splitComma(*parts) {
				switch p {
				case "lists":
					opt.SkipLists = false
				case "time":
					opt.SkipTime = false
				case "queue":
					opt.SkipQueue = false
				}
			}
			apidrv.RunAlgebra(o, opt)
		case "copy":
			apidrv.RunCopy(o)
		case "help":
			apidrv.RunHelpers(o, *seed)
			apidrv.RunHelperLists(o, *maxList)
			apidrv.RunAsync(o, *seed, *asyncReps)
		}
		o.Close()
		b, _ := json.Marshal(map[string]any{"lines": o.Lines, "stats": o.Stats})
		fmt.Println(string(b))
		return 0
	case "total":
		return apidrv.RunTotal(apidrv.TotalOpts{Out: *out, Shards: *shards, Workers: *workers,
			DeadlineMs: *deadline, Filter: *fn, Seed: *seed})
	case "worker":
		return apidrv.RunWorker(apidrv.WorkerOpts{From: *from, Stride: *stride, Offset: *offset,
			Journal: *journal, DeadlineMs: *deadline, Filter: *fn})
	case "list":
		return apidrv.PrintCalls(*fn)
	case "one":
		return apidrv.RunOne(*fn, *phase, *cls, *deadline)
	}
	fmt.Fprintln(os.Stderr, "unknown mode", *mode)
	return 2
}

func splitComma(s string) []string {
	var out []string
	cur := ""
	for _, c := range s {
		if c == ',' {
			if cur != "" {
				out = append(out, cur)
			}
			cur = ""
		} else {
			cur += string(c)
		}
	}
	if cur != "" {
		out = append(out, cur)
	}
	return out
}
