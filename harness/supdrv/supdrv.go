// Package supdrv drives a REAL pkg/node Supervisor through its in-memory
// TestFork / TestKill seams and records what happens as ndjson for
// spec/TraceSupervisor.tla (property C15).
//
// Gates (nothing in the supervisor is replaced, only the seams it offers):
//
//	TestFork   a call parks until the scheduler of the harness releases it with
//	           nil or an error; the in-memory worker (a real node.Worker with
//	           the shipped WorkerSchema) is started by a separate `connect`
//	           step.  The two events of one fork are independent: `connect`
//	           AFTER `fork` is the usual order (SetWorker, then WorkerForked);
//	           `connect` while the call is still parked is a worker that is
//	           faster than the fork seam (WorkerConnected / WorkerForked reach
//	           the supervisor before SetWorker).  Ungated forks do the same
//	           with probability EarlyPct: the seam returns only after the
//	           supervisor has processed the worker's WorkerForked
//	TestKill   records the request, stops the worker, returns; the confirmation
//	           (WorkerKilled, which KillingWorkerState adds itself after
//	           proc.Kill() when there is no seam) is a separate `killed` step
//	tracer     a tracer on the supervisor machine samples the verif accessor
//	           node.VerifPoolOf at TransitionInit and TransitionEnd and can park
//	           the machine at a TransitionEnd (`pause` .. `resume`) so that
//	           several mutations reach the queue while the supervisor is busy
//	ReadyEnter a negotiation handler bound to each worker gates its Ready state
//
// Every supervisor transition, every queue insertion of a kill / error, every
// TestFork / TestKill call and every worker transition is one ndjson line.
package supdrv

import (
	"context"
	"encoding/json"
	"errors"
	"fmt"
	"math/rand"
	"reflect"
	"sort"
	"strings"
	"sync"
	"sync/atomic"
	"time"

	am "github.com/pancsta/asyncmachine-go/pkg/machine"
	"github.com/pancsta/asyncmachine-go/pkg/node"
	"github.com/pancsta/asyncmachine-go/pkg/node/states"
)

var (
	ssS = states.SupervisorStates
	ssW = states.WorkerStates
)

// Op is one step of a case script.
//
//	waitfork  wait until the I-th TestFork call is parked
//	fork      release TestFork call I (Ok: return nil, else an error)
//	connect   start the in-memory worker of fork I against its bootstrap address
//	          (fork I released before: usual order; still parked: the worker
//	          announces itself before SetWorker)
//	econnany  connect the worker of a random fork call that is still parked
//	dropboot  take the boot entry of fork I out of the map while its worker has
//	          not connected: Add1(SetWorker, {WorkerAddr: boot}) without a
//	          WorkerInfo, or (S = "killed") Add1(WorkerKilled, {LocalAddr: boot})
//	ready     open the Ready gate of worker I and add Ready
//	unready   remove Ready from worker I
//	disc      stop worker I (crash / disconnect)
//	err       deliver N worker errors for worker I (node.AddErrWorker)
//	killed    confirm the kill of worker I (add WorkerKilled)
//	hb        add Heartbeat (what the supervisor's ticker does)
//	checkpool call Supervisor.CheckPool()
//	work      add work state S on worker I
//	pause     park the supervisor machine at its next TransitionEnd
//	resume    let it continue
//	settle    wait until the supervisor is quiet (Ms without a transition that
//	          is not a ListWorkers poll), at most 20 x Ms
//	waitstate wait until supervisor state S is active (Ok) / inactive
//	sleep     sleep Ms
//	relany    release a random parked fork (free schedules)
type Op struct {
	K  string `json:"k"`
	I  int    `json:"i,omitempty"`
	N  int    `json:"n,omitempty"`
	Ok bool   `json:"ok,omitempty"`
	Ms int    `json:"ms,omitempty"`
	S  string `json:"s,omitempty"`
}

type Case struct {
	Label   string `json:"label"`
	Min     int    `json:"min"`
	Max     int    `json:"max"`
	Warm    int    `json:"warm"`
	ErrKill int    `json:"errkill"`
	// timings of the supervisor under test (ms)
	ConnMs  int `json:"conn_ms"`
	PauseMs int `json:"pause_ms"`
	CheckMs int `json:"check_ms"`
	// heartbeat ticker period (0: one hour, i.e. only scripted heartbeats)
	HbMs int `json:"hb_ms"`
	// Gated: TestFork parks until released; else forks return at once and the
	// worker connects at once (AutoConnect)
	Gated       bool `json:"gated"`
	AutoConnect bool `json:"autoconnect"`
	// ungated forks: random delay (0..ForkDelayMs) and failure probability
	ForkDelayMs int `json:"fork_delay_ms"`
	ForkFailPct int `json:"fork_fail_pct"`
	// ungated forks: probability that the worker announces itself before the
	// TestFork call returns (a fork seam that is slow to return)
	EarlyPct int `json:"early_pct"`
	// ReadyGate: workers become Ready only on a `ready` step
	ReadyGate bool  `json:"readygate"`
	Seed      int64 `json:"seed"`
	Script    []Op  `json:"script"`
	// OpMs bounds the wait of one scripted step (default 4000)
	OpMs int `json:"op_ms"`
	// HandlerMs overrides the supervisor machine's handler timeout (default 100ms)
	HandlerMs int `json:"handler_ms"`
}

type Outcome struct {
	Label string   `json:"label"`
	Lines []string `json:"-"`
	// Stuck is set when a bounded wait of the harness expired (inconclusive)
	Stuck string `json:"stuck,omitempty"`
	// Miss lists scripted steps whose precondition never came true on the real
	// code (the schedule is not realizable as written); not a verdict
	Miss      []string `json:"miss,omitempty"`
	Forks     int      `json:"forks"`
	Tx        int      `json:"tx"`
	MaxTrack  int      `json:"maxtrack"`
	PoolReady int      `json:"poolready"`
	Kills     int      `json:"kills"`
}

// ---------------------------------------------------------------------------

type wsEntry struct {
	Id   int    `json:"id"`
	St   string `json:"st"`
	Rdy  bool   `json:"rdy"`
	Errs int    `json:"errs"`
	NRdy bool   `json:"nrdy"`
}

type txLine struct {
	Ev      string    `json:"ev"`
	N       int       `json:"n"`
	Op      string    `json:"op"`
	Called  []string  `json:"called"`
	Auto    bool      `json:"auto"`
	W       int       `json:"w"`
	Info    bool      `json:"info"`
	KillErr bool      `json:"killerr"`
	Err     string    `json:"err"`
	Ms      int64     `json:"ms"`
	Acc     bool      `json:"acc"`
	Before  []string  `json:"before"`
	After   []string  `json:"after"`
	T0      int       `json:"t0"`
	R0      int       `json:"r0"`
	Rg      int       `json:"rg"`
	T       int       `json:"t"`
	R       int       `json:"r"`
	MinEff  int       `json:"mineff"`
	Max     int       `json:"max"`
	Ws      []wsEntry `json:"ws"`
	Hs      [][]string `json:"hs"`
	Lk      bool       `json:"lk"`
	Ql      int       `json:"ql"`
}

type forkGate struct {
	id   int
	addr string
	rel  chan error
	done bool
	ok   bool
}

type wrk struct {
	id        int
	boot      string
	forkedAt  time.Time // when TestFork was called for it (its bootstrap is a bit older)
	w         *node.Worker
	gate      atomic.Bool // Ready allowed
	stopped   bool
	killAsked bool
	killConf  bool
}

type run struct {
	c   *Case
	ctx context.Context
	s   *node.Supervisor
	rng *rand.Rand

	mu      sync.Mutex
	lines   []string
	ids     map[string]int // any address -> worker id
	nextId  int
	forks   []*forkGate    // by arrival order (index+1 = fork number)
	forkId  map[int]int    // fork number -> worker id
	workers map[int]*wrk   // worker id -> worker
	txn     int
	lastTx  time.Time      // last non-poll supervisor transition
	active  map[string]bool
	seen    []seenEv       // acks: transitions / queue insertions seen
	cur     *txLine
	pool0   node.VerifPool
	cond    *sync.Cond
	out     *Outcome
	t0      time.Time
	lastWs  []wsEntry

	pauseReq  atomic.Bool
	paused    chan struct{}
	resume    chan struct{}
	isPaused  bool
}

type seenEv struct {
	kind   string // "tx" | "q"
	state  string
	op     string
	w      int
	acc    bool
}

var errInjected = errors.New("verif: injected worker error")
var errForkFail = errors.New("verif: fork failed")

func (r *run) log(v any) {
	b, err := json.Marshal(v)
	if err != nil {
		panic(err)
	}
	r.lines = append(r.lines, string(b))
}

// idOf maps an address to a worker id (r.mu held).
func (r *run) idOf(addr string) int {
	if addr == "" {
		return 0
	}
	if id, ok := r.ids[addr]; ok {
		return id
	}
	r.nextId++
	r.ids[addr] = r.nextId
	return r.nextId
}

// ---------------------------------------------------------------------------
// supervisor tracer

type supTracer struct {
	*am.TracerNoOp
	r *run
}

func mutOp(t am.MutationType) string {
	switch t {
	case am.MutationAdd:
		return "add"
	case am.MutationRemove:
		return "remove"
	case am.MutationSet:
		return "set"
	}
	return "other"
}

// attribute a mutation to a worker id (r.mu held)
func (r *run) attribute(called am.S, args am.A) (w int, info, killErr bool) {
	wa, la, ba, hasInfo := node.VerifArgs(args)
	info = hasInfo
	if ex := am.ParseArgs[am.AException](args); ex != nil && ex.Err != nil {
		killErr = errors.Is(ex.Err, node.ErrWorkerKill)
	}
	// WorkerConnected / WorkerForked carry both: the local address becomes an
	// alias of the fork's id
	if ba != "" {
		w = r.idOf(ba)
		if la != "" {
			if _, ok := r.ids[la]; !ok {
				r.ids[la] = w
			}
		}
		return
	}
	if wa != "" {
		return r.idOf(wa), info, killErr
	}
	if la != "" {
		return r.idOf(la), info, killErr
	}
	return 0, info, killErr
}

func (r *run) wsOf(p node.VerifPool) []wsEntry {
	ws := make([]wsEntry, 0, len(p.Workers))
	for _, w := range p.Workers {
		st := "boot"
		if w.Rpc {
			st = "rpc"
		}
		ws = append(ws, wsEntry{Id: r.idOf(w.Addr), St: st, Rdy: w.Ready,
			Errs: w.Errs, NRdy: w.NetReady})
	}
	sort.Slice(ws, func(i, j int) bool { return ws[i].Id < ws[j].Id })
	return ws
}

func (t *supTracer) TransitionInit(tx *am.Transition) {
	r := t.r
	p := node.VerifPoolOf(r.s)
	r.mu.Lock()
	defer r.mu.Unlock()
	called := tx.CalledStates()
	w, info, killErr := r.attribute(called, tx.Mutation.Args)
	r.txn++
	errMsg := ""
	if ex := am.ParseArgs[am.AException](tx.Mutation.Args); ex != nil && ex.Err != nil {
		errMsg = ex.Err.Error()
		if len(errMsg) > 160 {
			errMsg = errMsg[:160]
		}
	}
	r.cur = &txLine{Ev: "tx", N: r.txn, Op: mutOp(tx.Mutation.Type), Err: errMsg,
		Ms: time.Since(r.t0).Milliseconds(),
		Called: append([]string{}, called...), Auto: tx.Mutation.IsAuto, W: w,
		Info: info, KillErr: killErr, T0: p.Tracked, R0: p.Ready, Rg: -1,
		MinEff: p.MinEff, Max: p.Max, Hs: [][]string{}}
	// does the mutation name a worker by its current map key (LocalAddr)?
	if _, la, _, _ := node.VerifArgs(tx.Mutation.Args); la != "" {
		for _, pw := range p.Workers {
			if pw.Addr == la {
				r.cur.Lk = true
			}
		}
	}
	r.pool0 = p
}

func (t *supTracer) HandlerEnd(tx *am.Transition, emitter, handler string) {
	r := t.r
	rg := -1
	if handler == "PoolReadyEnter" || handler == "PoolReadyExit" {
		rg = node.VerifPoolOf(r.s).Ready
	}
	r.mu.Lock()
	defer r.mu.Unlock()
	if r.cur == nil {
		return
	}
	r.cur.Hs = append(r.cur.Hs, handlerPair(handler))
	if rg >= 0 {
		r.cur.Rg = rg
	}
}

// handlerPair splits a handler method name into (kind, state): FooEnter ->
// ("enter", "Foo"), FooState -> ("state", "Foo"), ...
func handlerPair(name string) []string {
	for _, suf := range []string{"Enter", "Exit", "State", "End"} {
		if st, ok := strings.CutSuffix(name, suf); ok && st != "" {
			return []string{strings.ToLower(suf), st}
		}
	}
	return []string{"other", name}
}

func isPoll(called []string) bool {
	return len(called) == 1 && called[0] == ssS.ListWorkers
}

func (t *supTracer) TransitionEnd(tx *am.Transition) {
	r := t.r
	p := node.VerifPoolOf(r.s)
	r.mu.Lock()
	c := r.cur
	if c == nil {
		r.mu.Unlock()
		return
	}
	r.cur = nil
	c.Acc = tx.IsAccepted.Load()
	c.Before = append([]string{}, tx.StatesBefore()...)
	c.After = append([]string{}, tx.Machine.ActiveStates(nil)...)
	c.T, c.R = p.Tracked, p.Ready
	c.Ws = r.wsOf(p)
	r.lastWs = c.Ws
	c.Ql = int(tx.QueueLen)
	r.log(c)
	r.active = map[string]bool{}
	for _, s := range c.After {
		r.active[s] = true
	}
	if !isPoll(c.Called) {
		r.lastTx = time.Now()
	}
	for _, s := range c.Called {
		r.seen = append(r.seen, seenEv{kind: "tx", state: s, op: c.Op, w: c.W, acc: c.Acc})
	}
	r.out.Tx++
	if c.T > r.out.MaxTrack {
		r.out.MaxTrack = c.T
	}
	pr := false
	for _, s := range c.Before {
		pr = pr || s == ssS.PoolReady
	}
	if !pr && r.active[ssS.PoolReady] {
		r.out.PoolReady++
	}
	r.cond.Broadcast()
	doPause := r.pauseReq.Load() && !r.isPaused
	if doPause {
		r.isPaused = true
	}
	r.mu.Unlock()

	if doPause {
		select {
		case r.paused <- struct{}{}:
		default:
		}
		select {
		case <-r.resume:
		case <-time.After(3 * time.Second):
		case <-r.ctx.Done():
		}
		r.mu.Lock()
		r.isPaused = false
		r.mu.Unlock()
	}
}

func (t *supTracer) MutationQueued(m am.Api, mut *am.Mutation) {
	r := t.r
	called := am.IndexToStates(m.StateNames(), mut.Called)
	r.mu.Lock()
	defer r.mu.Unlock()
	w, _, killErr := r.attribute(called, mut.Args)
	for _, s := range called {
		r.seen = append(r.seen, seenEv{kind: "q", state: s, op: mutOp(mut.Type), w: w})
		if s == ssS.KillingWorker || s == ssS.ErrWorker || s == ssS.WorkerKilled {
			r.log(map[string]any{"ev": "q", "op": mutOp(mut.Type), "state": s, "w": w,
				"killerr": killErr})
		}
	}
	r.cond.Broadcast()
}

// ---------------------------------------------------------------------------
// worker side

type workerGate struct {
	w *wrk
	r *run
}

func (g *workerGate) ReadyEnter(e *am.Event) bool {
	return !g.r.c.ReadyGate || g.w.gate.Load()
}

type wrkTracer struct {
	*am.TracerNoOp
	r  *run
	id int
}

var workStatus = map[string]bool{ssW.Idle: true, ssW.WorkRequested: true,
	ssW.Working: true, ssW.WorkReady: true, ssW.Ready: true}

func (t *wrkTracer) TransitionEnd(tx *am.Transition) {
	var act []string
	for _, s := range tx.Machine.ActiveStates(nil) {
		if workStatus[s] {
			act = append(act, s)
		}
	}
	if act == nil {
		act = []string{}
	}
	r := t.r
	r.mu.Lock()
	defer r.mu.Unlock()
	r.log(map[string]any{"ev": "wtx", "w": t.id, "called": tx.CalledStates(),
		"op": mutOp(tx.Mutation.Type), "acc": tx.IsAccepted.Load(), "after": act})
}

// ---------------------------------------------------------------------------
// seams

func (r *run) testFork(addr string) error {
	r.mu.Lock()
	id := r.idOf(addr)
	g := &forkGate{id: id, addr: addr, rel: make(chan error, 1)}
	r.forks = append(r.forks, g)
	n := len(r.forks)
	r.forkId[n] = id
	r.workers[id] = &wrk{id: id, boot: addr, forkedAt: time.Now()}
	r.out.Forks = n
	r.log(map[string]any{"ev": "fork", "f": n, "w": id})
	r.cond.Broadcast()
	gated := r.c.Gated
	r.mu.Unlock()

	var err error
	if gated {
		select {
		case err = <-g.rel:
		case <-r.ctx.Done():
			err = r.ctx.Err()
		}
	} else {
		r.mu.Lock()
		delay, fail, early := 0, false, false
		if r.c.ForkDelayMs > 0 {
			delay = r.rng.Intn(r.c.ForkDelayMs + 1)
		}
		if r.c.ForkFailPct > 0 {
			fail = r.rng.Intn(100) < r.c.ForkFailPct
		}
		if r.c.EarlyPct > 0 {
			early = r.rng.Intn(100) < r.c.EarlyPct
		}
		from := len(r.seen)
		if early {
			r.log(map[string]any{"ev": "env", "i": -1, "k": "connect", "f": n, "n": 0,
				"ok": true, "s": "early", "paused": false})
		}
		r.mu.Unlock()
		if early {
			// the process is up and dials its bootstrap before the seam returns;
			// the seam returns when the supervisor has dealt with WorkerForked
			if r.connect(id) == nil {
				r.waitFor(1500*time.Millisecond, func() bool {
					return r.ackSince(from, ssS.WorkerForked, "add", id, 1)
				})
			}
		}
		if delay > 0 {
			select {
			case <-time.After(time.Duration(delay) * time.Millisecond):
			case <-r.ctx.Done():
			}
		}
		if fail {
			err = errForkFail
		}
	}
	r.mu.Lock()
	g.done = true
	g.ok = err == nil
	r.log(map[string]any{"ev": "forkret", "f": n, "w": id, "ok": err == nil})
	auto := r.c.AutoConnect && err == nil
	r.mu.Unlock()
	if auto {
		// like a real fork: the process starts after the call returns
		go func() {
			time.Sleep(time.Duration(5+r.c.CheckMs/2) * time.Millisecond)
			_ = r.connect(id)
		}()
	}
	return err
}

func (r *run) testKill(addr string) error {
	r.mu.Lock()
	id := r.idOf(addr)
	w := r.workers[id]
	r.out.Kills++
	r.log(map[string]any{"ev": "kill", "w": id})
	if w != nil {
		w.killAsked = true
	}
	r.cond.Broadcast()
	r.mu.Unlock()
	if w != nil {
		r.stopWorker(w)
	}
	return nil
}

func (r *run) stopWorker(w *wrk) {
	r.mu.Lock()
	if w.stopped || w.w == nil {
		w.stopped = true
		r.mu.Unlock()
		return
	}
	w.stopped = true
	nw := w.w
	r.mu.Unlock()
	// never block a supervisor handler on the worker's queue; the worker machine
	// is not disposed here (it goes with the context of the case)
	go nw.Stop(false)
}

// bootAlive: the bootstrap of a fork lives for ConnTimeout (bootstrap.StartState).
// A worker started later would dial a closed port - or, all cases of a driver
// process sharing the loopback interface, the port of somebody else's RPC server
// (the library panics on the foreign schema: NetworkMachine.MustParseStates).  For
// the supervisor a worker that comes too late is a worker that never connects.
func (r *run) bootAlive(w *wrk) bool {
	return time.Since(w.forkedAt) < time.Duration(r.c.ConnMs-100)*time.Millisecond
}

func (r *run) connect(id int) error {
	r.mu.Lock()
	w := r.workers[id]
	if w == nil || w.w != nil || w.stopped {
		r.mu.Unlock()
		return fmt.Errorf("no fork %d to connect", id)
	}
	if !r.bootAlive(w) {
		r.mu.Unlock()
		return fmt.Errorf("the bootstrap of fork %d has expired", id)
	}
	r.mu.Unlock()
	kind := "k" + r.c.Label
	nw, err := node.NewWorker(r.ctx, kind, states.WorkerSchema,
		states.WorkerStates.Names(), nil)
	if err != nil {
		return err
	}
	nw.ConnTimeout = time.Duration(r.c.ConnMs) * time.Millisecond
	if _, err := nw.Mach.HandlersBind(&workerGate{w: w, r: r}); err != nil {
		return err
	}
	if _, err := nw.Mach.BindTracer(&wrkTracer{
		TracerNoOp: &am.TracerNoOp{Id: fmt.Sprintf("verif-w%d", id)}, r: r, id: id}); err != nil {
		return err
	}
	r.mu.Lock()
	w.w = nw
	r.mu.Unlock()
	nw.Start(w.boot)
	// test configuration: the worker's RPC server pushes its clock to the
	// supervisor's replica at most every 250ms by default; shorten the lag
	if nw.LocalRpc != nil {
		d := 15 * time.Millisecond
		nw.LocalRpc.PushInterval.Store(&d)
	}
	return nil
}

// ---------------------------------------------------------------------------
// waits

// waitFor blocks until pred() (evaluated under r.mu) or the deadline.
func (r *run) waitFor(d time.Duration, pred func() bool) bool {
	deadline := time.Now().Add(d)
	stop := make(chan struct{})
	defer close(stop)
	go func() {
		t := time.NewTicker(10 * time.Millisecond)
		defer t.Stop()
		for {
			select {
			case <-stop:
				return
			case <-t.C:
				r.mu.Lock()
				r.cond.Broadcast()
				r.mu.Unlock()
			}
		}
	}()
	r.mu.Lock()
	defer r.mu.Unlock()
	for !pred() {
		if time.Now().After(deadline) || r.ctx.Err() != nil {
			return false
		}
		r.cond.Wait()
	}
	return true
}

// seenSince: an ack of (state, op, worker) after position `from` of r.seen.
// In paused mode the queue insertion is the ack, else the ended transition.
func (r *run) ackSince(from int, state, op string, w int, n int) bool {
	cnt := 0
	for _, e := range r.seen[from:] {
		kind := "tx"
		if r.isPaused {
			kind = "q"
		}
		if e.kind == kind && e.state == state && e.op == op && (w == 0 || e.w == w) {
			cnt++
		}
	}
	return cnt >= n
}

func (r *run) opTimeout() time.Duration {
	if r.c.OpMs > 0 {
		return time.Duration(r.c.OpMs) * time.Millisecond
	}
	return 4 * time.Second
}

func (r *run) miss(format string, a ...any) {
	r.mu.Lock()
	defer r.mu.Unlock()
	r.out.Miss = append(r.out.Miss, fmt.Sprintf(format, a...))
}

// ---------------------------------------------------------------------------

func (r *run) exec(i int, op Op) (stuck string) {
	r.mu.Lock()
	r.log(map[string]any{"ev": "env", "i": i, "k": op.K, "f": op.I, "n": op.N,
		"ok": op.Ok, "s": op.S, "paused": r.isPaused})
	from := len(r.seen)
	r.mu.Unlock()
	to := r.opTimeout()

	// dynamic targets: "<op>any" picks a random fork that the op applies to
	if strings.HasSuffix(op.K, "any") && op.K != "relany" {
		base := strings.TrimSuffix(op.K, "any")
		r.mu.Lock()
		var cands []int
		for n, g := range r.forks {
			w := r.workers[g.id]
			if w == nil {
				continue
			}
			ok := false
			switch base {
			case "conn":
				ok = g.done && w.w == nil && !w.stopped && g.ok && r.bootAlive(w)
			case "econn":
				ok = !g.done && len(g.rel) == 0 && w.w == nil && !w.stopped && r.bootAlive(w)
			case "err", "disc", "ready", "unready", "work":
				ok = w.w != nil && !w.stopped && w.w.LocalAddr != ""
			case "killed":
				ok = w.w != nil && w.killAsked && !w.killConf
			}
			if ok {
				cands = append(cands, n+1)
			}
		}
		sort.Ints(cands)
		pick := 0
		if len(cands) > 0 {
			pick = cands[r.rng.Intn(len(cands))]
		}
		r.mu.Unlock()
		if pick == 0 {
			return "" // nothing to apply it to (not a miss: dynamic)
		}
		op.I = pick
		if base == "conn" || base == "econn" {
			op.K = "connect"
		} else {
			op.K = base
		}
		r.mu.Lock()
		r.log(map[string]any{"ev": "env", "i": i, "k": op.K, "f": op.I, "n": op.N,
			"ok": op.Ok, "s": op.S, "paused": r.isPaused})
		r.mu.Unlock()
	}

	wid := func() int {
		r.mu.Lock()
		defer r.mu.Unlock()
		return r.forkId[op.I]
	}

	switch op.K {
	case "sleep":
		time.Sleep(time.Duration(op.Ms) * time.Millisecond)

	case "waitfork":
		d := to
		if op.Ms > 0 {
			d = time.Duration(op.Ms) * time.Millisecond
		}
		if !r.waitFor(d, func() bool { return len(r.forks) >= op.I }) {
			r.miss("step %d: fork call %d never arrived", i, op.I)
		}

	case "fork", "relany":
		r.mu.Lock()
		var g *forkGate
		if op.K == "relany" {
			var open []*forkGate
			for _, f := range r.forks {
				if !f.done && len(f.rel) == 0 {
					open = append(open, f)
				}
			}
			if len(open) > 0 {
				g = open[r.rng.Intn(len(open))]
			}
		} else if op.I >= 1 && op.I <= len(r.forks) {
			g = r.forks[op.I-1]
		}
		r.mu.Unlock()
		if g == nil || g.done {
			if op.K == "fork" {
				r.miss("step %d: fork call %d is not parked", i, op.I)
			}
			return
		}
		var ferr error
		if !op.Ok {
			ferr = errForkFail
		}
		g.rel <- ferr
		st := ssS.SetWorker
		if !op.Ok {
			st = ssS.ErrWorker
		}
		if !r.waitFor(to, func() bool { return r.ackSince(from, st, "add", g.id, 1) }) {
			r.miss("step %d: no %s after releasing fork %d", i, st, op.I)
		}

	case "connect":
		id := wid()
		if id == 0 {
			r.miss("step %d: no fork %d", i, op.I)
			return
		}
		if err := r.connect(id); err != nil {
			r.miss("step %d: connect: %v", i, err)
			return
		}
		// WorkerForked, or the error the supervisor reports instead
		ok := r.waitFor(to, func() bool {
			if r.isPaused {
				return r.ackSince(from, ssS.WorkerConnected, "add", id, 1)
			}
			return r.ackSince(from, ssS.WorkerForked, "add", id, 1) ||
				r.ackSince(from, ssS.ErrWorker, "add", id, 1)
		})
		if !ok {
			r.miss("step %d: worker %d did not get connected", i, op.I)
		}

	case "ready", "unready", "work", "disc":
		id := wid()
		r.mu.Lock()
		w := r.workers[id]
		r.mu.Unlock()
		if w == nil || w.w == nil {
			r.miss("step %d: no worker %d", i, op.I)
			return
		}
		switch op.K {
		case "ready":
			w.gate.Store(true)
			w.w.Mach.Add1(ssW.Ready, nil)
		case "unready":
			w.gate.Store(false)
			w.w.Mach.Remove1(ssW.Ready, nil)
		case "work":
			w.w.Mach.Add1(op.S, nil)
		case "disc":
			r.stopWorker(w)
		}
		// let the supervisor's replica follow
		switch op.K {
		case "ready", "unready":
			want := op.K == "ready"
			r.pollUntil(700*time.Millisecond, func() bool {
				for _, e := range r.lastWs {
					if e.Id == id {
						return e.NRdy == want
					}
				}
				return false
			})
		case "disc":
			r.pollReady(150 * time.Millisecond)
		}

	case "err":
		id := wid()
		r.mu.Lock()
		w := r.workers[id]
		r.mu.Unlock()
		if w == nil || w.w == nil || w.w.LocalAddr == "" {
			r.miss("step %d: no worker %d", i, op.I)
			return
		}
		n := op.N
		if n == 0 {
			n = 1
		}
		r.mu.Lock()
		if _, ok := r.ids[w.w.LocalAddr]; !ok {
			r.ids[w.w.LocalAddr] = id // the supervisor has not named this address yet
		}
		r.mu.Unlock()
		for k := 0; k < n; k++ {
			node.AddErrWorker(nil, r.s.Mach, errInjected,
				node.Pass(&node.A{LocalAddr: w.w.LocalAddr}))
		}
		if !r.waitFor(to, func() bool { return r.ackSince(from, ssS.ErrWorker, "add", id, n) }) {
			r.miss("step %d: injected errors not seen", i)
		}

	case "killed":
		id := wid()
		r.mu.Lock()
		w := r.workers[id]
		r.mu.Unlock()
		if w == nil || w.w == nil || !w.killAsked {
			r.miss("step %d: no kill was requested for worker %d", i, op.I)
			return
		}
		r.mu.Lock()
		w.killConf = true
		if _, ok := r.ids[w.w.LocalAddr]; !ok {
			r.ids[w.w.LocalAddr] = id
		}
		r.mu.Unlock()
		r.s.Mach.Add1(ssS.WorkerKilled, node.Pass(&node.A{LocalAddr: w.w.LocalAddr}))
		if !r.waitFor(to, func() bool { return r.ackSince(from, ssS.WorkerKilled, "add", id, 1) }) {
			r.miss("step %d: WorkerKilled not seen", i)
		}

	case "dropboot":
		id := wid()
		r.mu.Lock()
		w := r.workers[id]
		r.mu.Unlock()
		if w == nil || w.w != nil {
			r.miss("step %d: no booting worker %d", i, op.I)
			return
		}
		st := ssS.SetWorker
		if op.S == "killed" {
			st = ssS.WorkerKilled
			r.s.Mach.Add1(st, node.Pass(&node.A{LocalAddr: w.boot}))
		} else {
			r.s.Mach.Add1(st, node.Pass(&node.A{WorkerAddr: w.boot}))
		}
		if !r.waitFor(to, func() bool { return r.ackSince(from, st, "add", id, 1) }) {
			r.miss("step %d: %s for the boot entry of %d not seen", i, st, op.I)
		}

	case "hb":
		r.s.Mach.Add1(ssS.Heartbeat, nil)

	case "checkpool":
		r.s.CheckPool()

	case "pause":
		r.pauseReq.Store(true)
		go func() {
			c, cancel := context.WithTimeout(r.ctx, time.Second)
			defer cancel()
			_, _ = r.s.Workers(c, "")
		}()
		select {
		case <-r.paused:
		case <-time.After(to):
			r.pauseReq.Store(false)
			r.miss("step %d: supervisor did not reach a pause point", i)
			return
		}
		r.pauseReq.Store(false)

	case "resume":
		select {
		case r.resume <- struct{}{}:
		default:
		}
		r.waitFor(time.Second, func() bool { return !r.isPaused })

	case "settle":
		q := time.Duration(op.Ms) * time.Millisecond
		if q == 0 {
			q = time.Duration(3*r.c.CheckMs) * time.Millisecond
		}
		r.waitFor(20*q, func() bool { return time.Since(r.lastTx) >= q })

	case "waitstate":
		d := to
		if op.Ms > 0 {
			d = time.Duration(op.Ms) * time.Millisecond
		}
		if !r.waitFor(d, func() bool { return r.active[op.S] == op.Ok }) {
			r.miss("step %d: state %s never became %v", i, op.S, op.Ok)
		}

	default:
		return fmt.Sprintf("step %d: unknown op %q", i, op.K)
	}
	return ""
}

// pollReady makes the supervisor list its ready workers a few times (public
// API), which gives the tracer fresh samples of the replicas.
func (r *run) pollReady(d time.Duration) {
	end := time.Now().Add(d)
	for time.Now().Before(end) && r.ctx.Err() == nil {
		c, cancel := context.WithTimeout(r.ctx, 200*time.Millisecond)
		_, _ = r.s.Workers(c, node.StateReady)
		cancel()
		time.Sleep(25 * time.Millisecond)
	}
}

// pollUntil lists the ready workers (fresh samples) until pred (under r.mu).
func (r *run) pollUntil(d time.Duration, pred func() bool) bool {
	end := time.Now().Add(d)
	for time.Now().Before(end) && r.ctx.Err() == nil {
		r.mu.Lock()
		ok := pred()
		r.mu.Unlock()
		if ok {
			return true
		}
		c, cancel := context.WithTimeout(r.ctx, 200*time.Millisecond)
		_, _ = r.s.Workers(c, node.StateReady)
		cancel()
		time.Sleep(20 * time.Millisecond)
	}
	return false
}

var caseSeq atomic.Int64

// Run executes one case on a fresh real supervisor.
func Run(c *Case) (out *Outcome) {
	out = &Outcome{Label: c.Label}
	defer func() {
		if p := recover(); p != nil {
			out.Stuck = fmt.Sprintf("harness panic: %v", p)
		}
	}()
	ctx, cancel := context.WithCancel(context.Background())
	defer cancel()
	if c.ConnMs == 0 {
		c.ConnMs = 600
	}
	if c.PauseMs == 0 {
		c.PauseMs = 150
	}
	if c.CheckMs == 0 {
		c.CheckMs = 50
	}
	r := &run{c: c, ctx: ctx, rng: rand.New(rand.NewSource(c.Seed)),
		ids: map[string]int{}, forkId: map[int]int{}, workers: map[int]*wrk{},
		active: map[string]bool{}, out: out, lastTx: time.Now(),
		paused: make(chan struct{}, 1), resume: make(chan struct{}, 1), t0: time.Now()}
	r.cond = sync.NewCond(&r.mu)

	kind := fmt.Sprintf("v%d", caseSeq.Add(1))
	c2 := *c
	c2.Label = kind
	r.c = &c2
	s, err := node.NewSupervisor(ctx, kind, []string{"verif"}, states.WorkerSchema,
		&node.SupervisorOpts{InstanceNum: int(caseSeq.Load())})
	if err != nil {
		out.Stuck = "NewSupervisor: " + err.Error()
		return
	}
	r.s = s
	s.Min, s.Max, s.Warm = c.Min, c.Max, c.Warm
	s.MaxClientWorkers = c.Max
	s.WorkerErrKill = c.ErrKill
	s.ConnTimeout = time.Duration(c.ConnMs) * time.Millisecond
	s.PoolPause = time.Duration(c.PauseMs) * time.Millisecond
	s.WorkerCheckInterval = time.Duration(c.CheckMs) * time.Millisecond
	s.HealthcheckPause = time.Duration(c.CheckMs) * time.Millisecond
	s.Heartbeat = time.Hour
	if c.HbMs > 0 {
		s.Heartbeat = time.Duration(c.HbMs) * time.Millisecond
	}
	s.TestFork = r.testFork
	s.TestKill = r.testKill
	if c.HandlerMs > 0 {
		s.Mach.HandlerTimeout = time.Duration(c.HandlerMs) * time.Millisecond
	}
	if _, err := s.Mach.BindTracer(&supTracer{
		TracerNoOp: &am.TracerNoOp{Id: "verif-sup"}, r: r}); err != nil {
		out.Stuck = "BindTracer: " + err.Error()
		return
	}

	r.mu.Lock()
	r.log(map[string]any{"ev": "init", "label": c.Label, "min": c.Min, "max": c.Max,
		"warm": c.Warm, "errkill": c.ErrKill, "gated": c.Gated,
		"readygate": c.ReadyGate, "mineff": min(c.Min, c.Max)})
	r.mu.Unlock()

	s.Start("localhost:0")

	for i, op := range c.Script {
		if st := r.exec(i, op); st != "" {
			out.Stuck = st
			break
		}
	}
	// never leave the machine parked
	select {
	case r.resume <- struct{}{}:
	default:
	}

	// the last sample: one more listing, then stop
	if out.Stuck == "" {
		cc, ccancel := context.WithTimeout(ctx, 300*time.Millisecond)
		_, _ = s.Workers(cc, "")
		ccancel()
	}
	r.mu.Lock()
	r.log(map[string]any{"ev": "end"})
	lines := r.lines
	r.lines = nil
	var ws []*wrk
	for _, w := range r.workers {
		ws = append(ws, w)
	}
	for _, g := range r.forks {
		if !g.done && len(g.rel) == 0 {
			g.rel <- context.Canceled
		}
	}
	r.mu.Unlock()
	out.Lines = lines

	// teardown (nothing below is recorded).  Only the context is cancelled: every
	// machine of the case was created from it and disposes itself.  No Stop()
	// calls are started here: a Stop racing with a disposal can panic inside
	// the library (Machine.When on a machine that is being disposed).
	_ = s.Mach.DetachTracer("verif-sup")
	_ = ws
	cancel()
	select {
	case <-s.Mach.WhenDisposed():
	case <-time.After(500 * time.Millisecond):
	}
	return out
}

// SchemaJSON exports the supervisor and worker schemas of the CURRENT tree
// (state index order, relations, groups) for the specification.
func SchemaJSON() ([]byte, error) {
	type st struct {
		Auto    bool     `json:"auto"`
		Multi   bool     `json:"multi"`
		Require []string `json:"require"`
		Add     []string `json:"add"`
		Remove  []string `json:"remove"`
		After   []string `json:"after"`
	}
	var supIdx am.S
	conv := func(schema am.Schema, names am.S) (map[string]st, error) {
		// the machine parses the schema (Schema.Parse) at creation: export what
		// a machine really uses
		m, err := am.NewCommon(context.Background(), "verif-schema", schema, names, nil, nil, nil)
		if err != nil {
			return nil, err
		}
		defer m.Dispose()
		if supIdx == nil {
			supIdx = m.StateNames()
		}
		out := map[string]st{}
		for n, s := range m.Schema() {
			e := func(x am.S) []string {
				if x == nil {
					return []string{}
				}
				return x
			}
			out[n] = st{Auto: s.Auto, Multi: s.Multi, Require: e(s.Require), Add: e(s.Add),
				Remove: e(s.Remove), After: e(s.After)}
		}
		return out, nil
	}
	sup, err := conv(states.SupervisorSchema, ssS.Names())
	if err != nil {
		return nil, err
	}
	wrkS, err := conv(states.WorkerSchema, ssW.Names())
	if err != nil {
		return nil, err
	}
	// the supervisor's handlers: methods and func-typed fields of the struct the
	// machine is bound to (NewSupervisor passes the *Supervisor itself)
	neg, fin := [][]string{}, [][]string{}
	isState := map[string]bool{}
	for _, n := range ssS.Names() {
		isState[n] = true
	}
	addH := func(name string) {
		for _, suf := range []string{"Enter", "Exit", "State", "End"} {
			if st, ok := strings.CutSuffix(name, suf); ok && isState[st] {
				h := []string{strings.ToLower(suf), st}
				if suf == "Enter" || suf == "Exit" {
					neg = append(neg, h)
				} else {
					fin = append(fin, h)
				}
				return
			}
		}
	}
	rt := reflect.TypeOf(&node.Supervisor{})
	for i := 0; i < rt.NumMethod(); i++ {
		addH(rt.Method(i).Name)
	}
	for i := 0; i < rt.Elem().NumField(); i++ {
		f := rt.Elem().Field(i)
		if f.Type.Kind() == reflect.Func {
			addH(f.Name)
		}
	}
	g := states.SupervisorGroups
	return json.MarshalIndent(map[string]any{
		"supervisor":       sup,
		"supervisor_index": supIdx,
		"worker":           wrkS,
		"worker_index":     ssW.Names(),
		"neg":              neg,
		"fin":              fin,
		"groups": map[string][]string{
			"PoolStatus":     g.PoolStatus,
			"PoolNormalized": g.PoolNormalized,
			"WorkStatus":     states.WorkerGroups.WorkStatus,
		},
	}, "", " ")
}

var _ = strings.Join
